#!/usr/bin/env python3
"""Regenerates MANIFEST.json from driver/props.py (single source of truth)."""
import json, os, sys
sys.path.insert(0, os.path.dirname(os.path.abspath(__file__)))
from props import PROPS, HARNESSES
VERIF = os.path.dirname(os.path.dirname(os.path.abspath(__file__)))
ids = [json.loads(l)['id'] for l in open(os.path.join(VERIF, 'properties.jsonl'))]
TECH = {
 'C01': ('rapidcheck scenario generation + trace invariants at the libc boundary',
         'Every kill / setxattr / control-file write / pidfd_open of the real BaseKillPlugin is judged against the world model over generated trees, configurations and histories (incl. multi-tick prekill hooks and re-created victims); exploration, not proof.'),
 'C02': ('rapidcheck + reference model (EngineModel) on the full call log', 'Complete run()/prerun() call log of the real main loop equals the EngineModel for every generated configuration and history.'),
 'C03': ('rapidcheck + validator search for the documented DFS', 'Observed attempt sequences of the real kill plugins must be producible by the documented victim order (search over tolerance nondeterminism); every process of a killed subtree is signalled; cgroup.kill never goes to an emptied cgroup; walks resumed after prekill hooks are judged as one sequence.'),
 'C04': ('rapidcheck differential (dry vs wet run of one scenario)', 'Two runs of identical generated scenarios (kill plugins, systemd_restart, prekill hooks, ruleset-level cgroups) are compared at the libc boundary, Stats, kmsg and on the virtual time line.'),
 'C05': ('rapidcheck + EngineModel, virtual clock, boundary-biased tick spacing', 'As C02 with delays, overrides and async completion; ticks land exactly on t+d.'),
 'C06': ('rapidcheck + EngineModel incl. ActionContext equality across resumes', 'As C02 biased to async pauses; context, uuid class and object identity compared on every resume; a second campaign suspends real kill plugins on scripted prekill hooks.'),
 'C07': ('rapidcheck + invariants over the interleaved hook/kill trace', 'Scripted prekill hooks (fire/poll/destroy) interleaved with interposed kill(2)/xattr events; priority and pattern model.'),
 'C08': ('rapidcheck + reference predicate over the sample history (virtual clock)', 'Each real detector verdict per tick equals the documented predicate over the whole generated history.'),
 'C09': ('rapidcheck + reference ranking with acceptable set / tolerances', 'First victim of each real kill plugin must lie in the RankModel acceptable set; exact integer thresholds, 64-bit totals.'),
 'C10': ('exhaustive fault enumeration + rapidcheck multi-fault sampling, crash-resuming driver', 'Every (role x file x mode x timing) fault, host-file fault, missing key (for the whole run or one tick), d_type loss, vanishing subtree and every mid-tick removal point of a baseline; clean termination (per-case watchdog against hangs), identity-aware containment, no fabricated statistic; plus the statistics model of C15 over every accessor with control-file faults in every case.'),
 'C11': ('rapidcheck stateful histories + per-instance EngineModel on tmpfs', 'Instance set, per-instance state, prerun and init arguments over create/remove/re-create/tag histories; ASan on the discard path.'),
 'C12': ('libFuzzer (config text) + rapidcheck (IR / size grammar vs exact SizeModel) + real binary', 'Reject-or-honour: no exception from compile, documented constraints decide acceptance, exact byte counts, process exit status.'),
 'C13': ('rapidcheck stateful (model-based) + metamorphic reversibility against a second real engine', 'Evaluation order, replacement scope, enablement, counter and hook priority after every operation; remove(T) equals history without T.'),
 'C14': ('rapidcheck stateful file-operation sequences, TSan, sentinel-fenced convergence', 'Real inotify watcher thread vs main loop; convergence decided after a FIFO sentinel; schedules sampled.'),
 'C15': ('rapidcheck + reference model (StatModel) of every accessor', 'A probe plugin inside the real tick reads every accessor twice; compared with values computed from the generator-side world.'),
 'C16': ('exhaustive enumeration over a 6-letter alphabet + rapidcheck random strings vs reference matcher/glob', 'Path laws, pattern relation and wildcard resolution, exhaustive to the stated lengths.'),
 'C17': ('rapidcheck + xattr / counter / kmsg / return-value correspondence per attempt', 'Accounting of every wet and dry attempt of the real kill path, keyed by cgroup identity.'),
 'C18': ('rapidcheck + bounds on every control-file write (kernel model reads limits back)', 'Floor / ceiling / alignment / guards of every senpai write over generated statistics and histories.'),
 'C19': ('rapidcheck concurrent programs + linearizability search, protocol sessions, TSan; exhaustive path lengths (FORTIFY)', 'Histories observed from real threads and sockets; schedules sampled.'),
 'C20': ('rapidcheck producer/sink schedules with a controllable streambuf, TSan', 'Exactly-once FIFO, bounded backlog, silencing on the real async Log; schedules sampled and, in the asan build, widened by entering condition waits late.'),
}
NOTE = 'Trusted base: the libc-boundary shim, the SimWorld kernel model on tmpfs, the scripted plugins and the reference model of this property (DESIGN.md section 3); exploration bounded by the generator domains stated in the evidence rule; '
checks = []
for pid in ids:
    if pid not in PROPS or PROPS[pid].get('unclaimed'):
        continue
    s = PROPS[pid]
    checks.append(dict(
        property_id=pid,
        quick_cmd='./check run %s --tier quick' % pid,
        thorough_cmd='./check run %s --tier thorough' % pid,
        evidence_file='evidence/%s.json' % pid,
        replay_cmd_template='./check replay %s {path}' % pid,
        engine=s.get('engine', 'rapidcheck'),
        level_claimed=dict(category=s['level'], text=s.get('level_text', TECH[pid][1]), design_ref='§' + pid),
        level_note=s.get('level_note', NOTE + '; '.join(s.get('assumptions', []))),
        technique=s.get('technique', TECH[pid][0]),
    ))
na = []
for pid in ids:
    if pid not in PROPS or PROPS[pid].get('unclaimed'):
        na.append(dict(property_id=pid, reason=(PROPS.get(pid, {}).get('unclaimed') or
                  'check not built yet in this round; planned per DESIGN.md §' + pid)))
man = dict(
    version=1,
    setup_cmd='./check setup',
    hooks=dict(guard='OOMD_VERIF', enable='every harness build passes -DOOMD_VERIF (driver/vpdriver.py FLAVOURS)',
               baseline_off_cmd='./check baseline-off', source_commits=[], add_only=True),
    engines=[
        dict(name='rapidcheck', path='harness/', serves_properties=[c['property_id'] for c in checks if 'rapidcheck' in c['engine']],
             kind_free_text='property-based testing (structured / stateful generation with integrated shrinking) driving the real oomd objects behind a libc-boundary shim'),
        dict(name='libFuzzer', path='harness/', serves_properties=[c['property_id'] for c in checks if 'libFuzzer' in c['engine']],
             kind_free_text='coverage-guided fuzzing with semantic oracles inside the target'),
    ],
    checks=checks,
    not_applicable=na,
    notes='All checks are generated-input search against explicit oracles (DESIGN.md). ./check is the single driver.',
)
json.dump(man, open(os.path.join(VERIF, 'MANIFEST.json'), 'w'), indent=1)
print('claimed', [c['property_id'] for c in checks])
