#!/usr/bin/env python3
"""Regenerates MANIFEST.json from driver/props.py (single source of truth)."""
import json, os, sys
sys.path.insert(0, os.path.dirname(os.path.abspath(__file__)))
from props import PROPS, HARNESSES
VERIF = os.path.dirname(os.path.dirname(os.path.abspath(__file__)))
ids = [json.loads(l)['id'] for l in open(os.path.join(VERIF, 'properties.jsonl'))]
checks = []
for pid in ids:
    if pid not in PROPS or PROPS[pid].get('unclaimed'):
        continue
    s = PROPS[pid]
    checks.append(dict(
        property_id=pid,
        quick_cmd='./check run %s --tier quick' % pid,
        thorough_cmd='./check run %s --tier thorough' % pid,
        evidence_file='evidence/%s.json' % pid,
        replay_cmd_template='./check replay %s {path}' % pid,
        engine=s.get('engine', 'rapidcheck'),
        level_claimed=dict(category=s['level'], text=s.get('level_text', ''), design_ref='§' + pid),
        level_note=s.get('level_note', ''),
        technique=s.get('technique', ''),
    ))
na = []
for pid in ids:
    if pid not in PROPS or PROPS[pid].get('unclaimed'):
        na.append(dict(property_id=pid, reason=(PROPS.get(pid, {}).get('unclaimed') or
                  'check not built yet in this round; planned per DESIGN.md §' + pid)))
man = dict(
    version=1,
    setup_cmd='./check setup',
    hooks=dict(guard='OOMD_VERIF', enable='every harness build passes -DOOMD_VERIF (driver/vpdriver.py FLAVOURS)',
               baseline_off_cmd='./check baseline-off', source_commits=[], add_only=True),
    engines=[
        dict(name='rapidcheck', path='harness/', serves_properties=[c['property_id'] for c in checks if 'rapidcheck' in c['engine']],
             kind_free_text='property-based testing (structured / stateful generation with integrated shrinking) driving the real oomd objects behind a libc-boundary shim'),
        dict(name='libFuzzer', path='harness/', serves_properties=[c['property_id'] for c in checks if 'libFuzzer' in c['engine']],
             kind_free_text='coverage-guided fuzzing with semantic oracles inside the target'),
    ],
    checks=checks,
    not_applicable=na,
    notes='All checks are generated-input search against explicit oracles (DESIGN.md). ./check is the single driver.',
)
json.dump(man, open(os.path.join(VERIF, 'MANIFEST.json'), 'w'), indent=1)
print('claimed', [c['property_id'] for c in checks])
