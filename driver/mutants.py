"""Sensitivity (mutation) suite: every patch under mutants/<ID>/ and
seeded/<name>/patch.diff must make the property's quick check report a
VIOLATION. Runs on scratch copies of /repo outside /repo and /verif."""
import glob
import json
import os
import shutil
import subprocess
import sys
import time

VERIF = os.path.dirname(os.path.dirname(os.path.abspath(__file__)))


def run_one(prop, patch, tier='quick', seed='1', keep=False):
    scratch = '/tmp/vp-mut-%d-%s' % (os.getpid(), os.path.basename(patch).replace('.', '_'))
    shutil.rmtree(scratch, ignore_errors=True)
    os.makedirs(scratch)
    try:
        subprocess.check_call(['git', '-C', '/repo', 'worktree', 'add', '--detach', '-f', scratch + '/repo', 'HEAD'],
                              stdout=subprocess.DEVNULL, stderr=subprocess.DEVNULL)
        r = subprocess.run(['git', '-C', scratch + '/repo', 'apply', patch], capture_output=True, text=True)
        if r.returncode != 0:
            return 'patch-does-not-apply', r.stderr[-300:], 0
        env = dict(os.environ)
        env['VERIF_REPO'] = scratch + '/repo'
        env['VERIF_OUT'] = scratch + '/out'
        env['VERIF_SEED'] = seed
        t0 = time.time()
        r = subprocess.run([os.path.join(VERIF, 'check'), 'run', prop, '--tier', tier], env=env,
                           capture_output=True, text=True)
        dt = time.time() - t0
        out = r.stdout + r.stderr
        if r.returncode == 1 and 'VIOLATION property=%s' % prop in r.stdout:
            why = [l for l in out.splitlines() if l.startswith('violation:')]
            return 'caught', (why[0] if why else '')[:200], dt
        if r.returncode == 0:
            return 'MISSED', out[-300:], dt
        return 'error rc=%d' % r.returncode, out[-600:], dt
    finally:
        subprocess.run(['git', '-C', '/repo', 'worktree', 'remove', '--force', scratch + '/repo'],
                       stdout=subprocess.DEVNULL, stderr=subprocess.DEVNULL)
        subprocess.run(['git', '-C', '/repo', 'worktree', 'prune'], stdout=subprocess.DEVNULL)
        shutil.rmtree(scratch, ignore_errors=True)


def cmd_mutants(argv):
    want = [a for a in argv if not a.startswith('-')]
    items = []
    for d in sorted(glob.glob(os.path.join(VERIF, 'mutants', 'C*'))):
        prop = os.path.basename(d)
        for p in sorted(glob.glob(os.path.join(d, '*.patch'))):
            items.append((prop, p))
    for d in sorted(glob.glob(os.path.join(VERIF, 'seeded', '*'))):
        meta = os.path.join(d, 'meta.json')
        patch = os.path.join(d, 'patch.diff')
        if os.path.exists(meta) and os.path.exists(patch):
            items.append((json.load(open(meta))['property'], patch))
    rows = []
    bad = 0
    for prop, patch in items:
        if want and prop not in want and os.path.basename(os.path.dirname(patch)) not in want \
                and os.path.splitext(os.path.basename(patch))[0] not in want:
            continue
        st, info, dt = run_one(prop, patch)
        rel = os.path.relpath(patch, VERIF)
        print('%-8s %-60s %-8s %5.0fs  %s' % (prop, rel, st, dt, info.replace('\n', ' ')[:150]), flush=True)
        rows.append((prop, rel, st, dt, info))
        if st != 'caught':
            bad += 1
    if not want:
        with open(os.path.join(VERIF, 'mutants', 'RESULTS.md'), 'w') as f:
            f.write('# Sensitivity suite results (quick tier, VERIF_SEED=1)\n\n| property | change | result | wall s | first message |\n|---|---|---|---|---|\n')
            for prop, rel, st, dt, info in rows:
                f.write('| %s | %s | %s | %.0f | %s |\n' % (prop, rel, st, dt, info.replace('|', '/').replace('\n', ' ')[:160]))
    return 1 if bad else 0
