"""Per-property configuration: harness, tiers, level, non-triviality rule."""

HARNESSES = {
    'c01': dict(flavour='asan', srcs=['c01.cpp']),
    'engine': dict(flavour='asan', srcs=['engine.cpp']),
    'c05k': dict(flavour='asan', srcs=['c05k.cpp']),
    'c11': dict(flavour='asan', srcs=['c11.cpp']),
    'c13': dict(flavour='asan', srcs=['c13.cpp']),
    'c17': dict(flavour='asan', srcs=['c17.cpp']),
    'c04': dict(flavour='asan', srcs=['c04.cpp']),
    'c15': dict(flavour='asan', srcs=['c15.cpp']),
    'c09': dict(flavour='asan', srcs=['c09.cpp']),
    'c03': dict(flavour='asan', srcs=['c03.cpp']),
    'c07': dict(flavour='asan', srcs=['c07.cpp']),
    'c08': dict(flavour='asan', srcs=['c08.cpp']),
    'c18': dict(flavour='asan', srcs=['c18.cpp']),
    'c10': dict(flavour='asan', srcs=['c10.cpp']),
    'c16': dict(flavour='asan', srcs=['c16.cpp']),
    'c12': dict(flavour='asan', srcs=['c12.cpp']),
    'c20_tsan': dict(flavour='tsan', srcs=['c20.cpp']),
    'c19_tsan': dict(flavour='tsan', srcs=['c19.cpp']),
    'c14_tsan': dict(flavour='tsan', srcs=['c14.cpp']),
    'c14_asan': dict(flavour='asan', srcs=['c14.cpp']),
    'c19_asan': dict(flavour='asan', srcs=['c19.cpp']),
    'c19_fort': dict(flavour='fort', srcs=['c19_fort.cpp'], common=False, libs='-ljsoncpp -lsystemd'),
    'c20_asan': dict(flavour='asan', srcs=['c20.cpp']),
    'c12_fuzz': dict(flavour='fuzz', srcs=['c12_fuzz.cpp']),
    'oomd_bin': dict(flavour='asan', srcs=[], common=False, with_main=True, libs='-ljsoncpp -lsystemd'),
}

PROPS = {
    'C01': dict(
        harness='c01', level='exploration',
        quick=dict(shards=8, n=1500, size=100),
        thorough=dict(shards=16, n=20000, size=100),
        rule='rapidcheck-generated scenario = cgroup tree (<=14 cgroups, wildcard-ambiguous names, 0-45 pids, '
             'pid-0 lines, per-pid kill outcomes) x 1-2 rulesets with one of the five kill plugins and random '
             'arguments x 1-6 tick history with cgroups removed/created/re-created; the real Oomd::run is driven '
             'tick by tick and every kill/setxattr/control-file write/pidfd_open is judged against the world model. '
             'Non-trivial = a kill action signalled >=1 process while another populated cgroup existed outside the '
             'victim subtree; distinct = distinct scenario JSON (hash set).',
        assumptions=['libc-boundary shim and SimWorld kernel model (DESIGN.md 3.2/3.3)',
                     'tmpfs on /dev/shm behaves like cgroupfs for readdir/openat/xattr'],
    ),
    'C02': dict(
        harness='engine', env={'VP_PROP': 'C02'}, level='exploration',
        quick=dict(shards=8, n=2500, size=100),
        thorough=dict(shards=16, n=100000, size=100),
        rule='rapidcheck-generated configuration (1-4 rulesets x 1-3 groups x 1-3 scripted detectors x 1-4 scripted '
             'actions, delays, silence-logs) x 3-15 tick history of per-plugin return values (CONTINUE/STOP/ASYNC_PAUSED) '
             'and virtual clock advances; the complete run()/prerun() call log of the real main loop is compared with '
             'the EngineModel reference. Non-trivial = a tick in which some group does not fire while another '
             "ruleset's chain runs, or a group containing an ASYNC-returning detector fires; distinct by scenario hash.",
        assumptions=['scripted plugins in the real registry; virtual CLOCK_MONOTONIC'],
    ),
    'C05': dict(
        harness='engine', env={'VP_PROP': 'C05'}, level='exploration',
        quick=dict(shards=8, n=2500, size=100),
        thorough=dict(shards=16, n=100000, size=100),
        rule='as C02 with generator biased to ruleset/plugin post_action_delay combinations (0..20 s, unset), STOP '
             'reached synchronously or after ASYNC_PAUSED episodes, tick spacings 0..60 s. Oracle: EngineModel '
             '(no action of a ruleset before t+d, restart allowed from t+d, d = stopping action\'s delay if it gives '
             'one). Non-trivial = a tick exactly at t+d, or a STOP after >=1 ASYNC whose own delay differs from the '
             "ruleset's; distinct by scenario hash. Second campaign (harness c05k): the five real kill plugins with "
             'their own post_action_delay behind slow scripted prekill hooks, detector firing on every tick, irregular '
             'tick spacing: after a STOP at virtual time t no chain starts before t+d and one starts at the first tick '
             '>= t+d; non-trivial there = a STOP whose plugin delay differs from the ruleset delay.',
        assumptions=['scripted plugins in the real registry; virtual CLOCK_MONOTONIC'],
    ),
    'C06': dict(
        harness='engine', env={'VP_PROP': 'C06'}, level='exploration',
        quick=dict(shards=8, n=2500, size=100),
        thorough=dict(shards=16, n=100000, size=100),
        rule='as C02 with generator biased to ASYNC_PAUSED episodes at every chain position and detectors mostly '
             'silent; oracle additionally compares the ActionContext (ruleset, group, run uuid class, prekill '
             'deadline, target) seen on every resume with the one the chain was fired with and the plugin object '
             'serial. Non-trivial = a suspension lasting >=2 ticks during which no group of that ruleset fires.',
        assumptions=['scripted plugins in the real registry; virtual CLOCK_MONOTONIC'],
    ),
    'C11': dict(
        harness='c11', level='exploration',
        quick=dict(shards=8, n=1500, size=100),
        thorough=dict(shards=16, n=60000, size=100),
        rule='rapidcheck-generated history (4-12 ticks) over 6 candidate cgroups on tmpfs that are created, removed '
             '(any number at once), re-created after >=1 absent tick and (un)tagged with the xattr_filter attribute; '
             'ruleset cgroup pattern with wildcards, optional xattr_filter, per-instance scripts incl. delays and '
             'ASYNC pauses, optional ordinary rulesets before/after. Oracle: instance set from the world model, '
             'EngineModel per instance (fresh after absence), init cgroup argument, ActionContext target, exactly '
             'one prerun per tick per live plugin object; ASan on the discard path. Non-trivial = a tick in which '
             '>=1 instance is discarded while >=1 survives.',
        assumptions=['remove-and-re-create within one tick gap is not generated (property: absent for at least one tick)'],
    ),
    'C13': dict(
        harness='c13', level='exploration',
        quick=dict(shards=8, n=3000, size=100),
        thorough=dict(shards=16, n=60000, size=100),
        rule='rapidcheck stateful generation: base config of 1-3 rulesets (duplicate names allowed, all 8 drop-in '
             'permission combinations, 0-2 base prekill hooks) and a sequence of <=12 operations over 4 tags: add / '
             're-add (1-2 rulesets replacing detectors and/or actions, 0-2 hooks), remove, refused adds (unknown '
             'target, part not opened up, failing plugin init, unknown plugin, engine-stage refusal of a later '
             'ruleset), through DropInServiceAdaptor and through Engine directly. After every operation one probe '
             'tick + Stats + firePrekillHook on 3 cgroups is compared with the reference model; finally '
             'remove(T) is compared with a second real engine run on the history without T. Non-trivial = a '
             're-add of a live tag that is not the newest, or a refused add after >=1 success.',
        assumptions=['refused adds are only issued for tags that are not live (whether the old content of the same '
                     'tag survives a refused re-add is not fixed by the property)'],
    ),
    'C17': dict(
        harness='c17', level='exploration',
        quick=dict(shards=8, n=1200, size=100),
        thorough=dict(shards=16, n=20000, size=100),
        rule='C01-style scenario (tree, five kill plugins, random arguments, 2-6 ticks) biased to repeated kills of '
             'the same cgroup (delay 0, lingering / EPERM / ESRCH pids), pre-existing integer oomd_* xattrs (0..2^30), '
             'dry and wet, always_continue, silence-logs; chain = scripted action, kill plugin, scripted action. '
             'Oracle per attempt: both uuid xattrs = one fresh id, oomd_ooms = previous+1, oomd_kill = previous + '
             'number of kill(2) calls that returned 0 (kernelkill: >= 1 iff cgroup.kill was written), one structured '
             'kmsg record and +1 on oomd.kills iff >=1 signal succeeded (dry: record marked (dry), no count), next '
             'action runs iff nothing was killed or always_continue, kill_by_pg_scan pauses exactly on its first '
             'sampling tick. Non-trivial = an attempt with both successful and failed signals, or a second attempt on '
             'a cgroup carrying counters from the first.',
        assumptions=['xattr model keyed by directory inode; no prekill hooks here (C07)'],
    ),
    'C04': dict(
        harness='c04', level='exploration',
        quick=dict(shards=8, n=800, size=100),
        thorough=dict(shards=16, n=15000, size=100),
        rule='differential: each generated scenario (C01-style world and history, one of the five kill plugins or '
             'systemd_restart per ruleset) is run twice on identically materialised worlds, dry=true and dry=false. '
             'Dry run: zero kill/setxattr/control-file write/pidfd_open/process_mrelease/sd_bus calls and oomd.kills / '
             'oomd.restarts unchanged; its first (dry) kmsg record names the cgroup the wet run attempts first, at the '
             'same tick and ruleset; next action runs iff always_continue; next chain start tick equals the wet '
             "run's when the wet first attempt succeeded. Non-trivial = the wet run signalled >=1 process (or "
             'restarted the service) at its first attempt.',
        assumptions=['sd_bus_* interposed; the wet restart always succeeds'],
    ),
    'C15': dict(
        harness='c15', level='exploration',
        quick=dict(shards=8, n=800, size=100),
        thorough=dict(shards=16, n=15000, size=100),
        rule='rapidcheck-generated trees (depth <=4, <=10 cgroups) with control-file contents from the kernel grammar '
             '(values up to 2^60 and max, permuted / extra memory.stat keys, upstream and legacy PSI, io.stat for '
             'configured and unconfigured devices, memory.high.tmp, swap limits incl. 0), random device / coefficient '
             'configuration, 2-8 ticks with changing values, host-file changes, removal and re-creation under the same '
             'name, with and without d_type. A vp_probe plugin inside the real tick reads every public accessor of every '
             'cgroup (root included), twice, with a control-file rewrite in between. Oracle: StatModel computed from the '
             'SimWorld values and the previous observation (tolerances in DESIGN.md §C15). Non-trivial = non-zero memory '
             'protection at two nested levels (depth >=3) or a re-creation; distinct by scenario hash.',
        assumptions=['temporal recurrences are checked one step at a time against the previous observed value'],
    ),
    'C09': dict(
        harness='c09', level='exploration',
        quick=dict(shards=8, n=1500, size=100),
        thorough=dict(shards=16, n=25000, size=100),
        rule='rapidcheck-generated sibling sets (2-8 populated siblings of equal preference under one parent, '
             'non-recursive) with usage / protection / swap / PSI / io.stat / pgscan statistics (small, up to 2^58 with '
             'the host sum below 2^62, exact ties, zeros), MemTotal and SwapTotal above 2^31 and 2^32 bytes, 1-4 tick '
             'histories for the rate based plugins, and every ranking parameter (size_threshold, '
             'growing_size_percentile, fractional min_growth_ratio, swap threshold as %, bare MB or K/M/G/T sizes with '
             'an exact byte value computed by the generator, biased_swap_kill, resource). Oracle: RankModel acceptable '
             'set (rankmodel.h) vs the first cgroup the real plugin attempts. Non-trivial = >=3 siblings and the '
             'acceptable set is a strict subset of the eligible siblings. Cases where a phase / eligibility comparison '
             'lies within the stated rounding tolerance are counted (label uncertain_phase) and not judged.',
        assumptions=['growing_size_percentile P is read as: at or above the ceil(n(100-P)/100)-th largest by usage minus protection',
                     'kill_by_pressure compares whole percentage points'],
    ),
    'C03': dict(
        harness='c03', level='exploration',
        quick=dict(shards=8, n=1500, size=100),
        thorough=dict(shards=16, n=25000, size=100),
        rule='rapidcheck-generated trees (depth <=4, <=14 cgroups) with every combination of prefer/avoid xattrs '
             '(trusted. and user., both at once), memory.oom.group, populated flags (incl. zombies), metric ties and '
             'per-cgroup kill outcomes (killable / no pid can be signalled), all five plugins, recursive and not, '
             'multi-pattern targets. Oracle: a search for an execution of the documented DFS (siblings by preference '
             'then RankModel key, descend unless oom.group, skip unpopulated, next-best on failure with backtracking, '
             'stop at first success; any order among keys within tolerance) that reproduces the observed attempt '
             'sequence. Non-trivial = >=1 failed attempt followed by a successful one, or prefer and avoid both '
             'present with >=1 attempt.',
        assumptions=['the root cgroup is not generated as a ranked target (its statistics come from host files)',
                     'cases whose ranking hits a rounding-uncertain phase comparison are counted and not judged'],
    ),
    'C07': dict(
        harness='c07', level='exploration',
        quick=dict(shards=8, n=1500, size=100),
        thorough=dict(shards=16, n=25000, size=100),
        rule='rapidcheck-generated scenario: small tree, 0-3 base prekill hooks and 0-2 drop-in units of hooks (1-3 '
             'patterns each: /, literal, * components, non-matching), prekill_hook_timeout 0..10 s, per-fire hook '
             'completion after k polls or never, 3-8 ticks spaced 1-4 s around the deadline, kill outcomes that force '
             'fallback victims, populated cgroups removed or re-created under the same path during the history, one or '
             'two kill actions in the chain (shared window). Oracle: invariants over the interleaved fire / poll / '
             'destroy / kill / xattr trace (priority and pattern model, window, no side effect on the victim before '
             'finish or timeout, invocation destroyed before the first signal, at most one outstanding invocation, a '
             'victim that vanished or was re-created during the wait is not touched). Non-trivial = a deferred hook '
             'followed by a failed kill and a second fire for the fallback victim, or a victim vanishing / being '
             're-created during the wait.',
        assumptions=['a tick landing exactly on the deadline is a don\'t-care'],
    ),
    'C08': dict(
        harness='c08', level='exploration',
        quick=dict(shards=8, n=1500, size=100),
        thorough=dict(shards=16, n=25000, size=100),
        rule='one real core detector (pressure_above, pressure_rising_beyond, memory_above, memory_reclaim, swap_free, '
             'exists, nr_dying_descendants) with generated arguments (both resources, thresholds as integers / % / bare '
             'MB / K-M-G sizes with generator-computed exact bytes, durations 0..40, fast_fall_ratio, negate, lte, '
             'count) watching 1-4 cgroups (multi-pattern, wildcards) that appear and disappear, over 5-30 ticks with '
             'spacing 0-20 s (virtual clock) and values drawn below / equal / just above / far above the threshold. '
             'Oracle: the documented predicate evaluated over the whole sample history; CONTINUE is observed as the '
             'following scripted action running that tick. Non-trivial = duration > 0 and the verdict changes at least '
             'twice (instantaneous detectors: changes at least twice).',
        assumptions=['first sample of the fast-fall test and of memory_reclaim, and ticks after the watched set changed '
                     '(memory_reclaim), are don\'t-cares as far as they can influence a verdict'],
    ),
    'C18': dict(
        harness='c18', level='exploration',
        quick=dict(shards=8, n=1000, size=100),
        thorough=dict(shards=16, n=15000, size=100),
        rule='rapidcheck-generated scenario: 0-5 cgroups under the senpai cgroup pattern plus unmatched neighbours; '
             'usage with file/anon active/inactive split, memory.min/high/max, swap limits and usage up the hierarchy, '
             'host MemTotal / swap / swappiness, PSI some averages around the targets and totals advancing over 6-25 '
             'ticks, usage drifting, cgroups removed, created and re-created under the same name; every senpai argument, '
             'both modes, with/without memory.reclaim and memory.high.tmp, optional timed writes. The kernel model '
             'stores limits page aligned and serves them back. Oracle: every write event of every tick (target '
             'cgroup matched; limit = usage or aligned within [floor-4095, max(ceiling, floor)]; first limit of a new '
             'identity = usage; reclaim size <= max_probe x (usage-floor) and only below both pressure targets and, '
             'with swap validation, below swap_threshold; poke reset to max in the same tick; swappiness restored). '
             'Non-trivial = >=1 adjusted (non-initial) limit or >=1 reclaim.',
        assumptions=['usage is page aligned and PSI is in the upstream format (kernels Senpai can run on)',
                     'nothing but senpai writes memory.high during the history'],
    ),
    'C10': dict(
        harness='c10', level='fault_enumeration',
        quick=dict(shards=16, baselines=1, stride=3, gen_shards=8, n=60, size=100, timeout=170),
        thorough=dict(shards=16, baselines=3, stride=1, gen_shards=16, n=4000, size=100, timeout=3000),
        rule='baseline scenarios (3-level tree, 3 ticks, every core detector, the five kill plugins recursive and not, '
             'kernelkill, dry, senpai in both modes, a ruleset-level cgroup, a prekill hook) under injected faults. '
             'Enumerated per baseline: (A) 5 cgroup roles x 21 control files x {absent, empty, unreadable (read fails), '
             'EACCES at open} x {from tick 0, from the kill tick}; (B) 6 host files x the same 4 modes x 2 timings and '
             'every key of /proc/vmstat, /proc/meminfo and of each role\'s memory.stat removed; (C) directory entries '
             'without d_type; (D) every index k of the kill tick\'s file-access sequence x 4 roles x {remove, remove and '
             're-create} performed just before access k. Sampled: (E) rapidcheck combinations of 1-4 such faults over '
             '200 baselines. Oracle: the run ends normally (no sanitizer / assertion report, no exception leaving '
             'Oomd::run, all ticks executed) and the C01 containment invariants hold on the trace. Non-trivial = the '
             'injected fault was actually hit (faulted file opened / access k existed); distinct by case hash. The quick '
             'tier enumerates every 3rd case of one baseline.',
        assumptions=['reads inside stdio / glob are not interposable: "unreadable" is produced by substituting a directory '
                     'at open time (read fails with EISDIR) or EACCES at open',
                     'a fault from tick 0 may make plugin init fail; a clean rejection is accepted'],
    ),
    'C16': dict(
        harness='c16', level='exploration',
        quick=dict(shards=16, deep=False, gen_shards=4, n=5000, size=100),
        thorough=dict(shards=16, deep=True, gen_shards=16, n=200000, size=100),
        rule='exhaustive enumeration (in batches) of all strings over {a,b,/,*,?,.}: unary laws (canonical form, '
             'absolute = root + / + relative for three spellings of the root, parts, isRoot, getChild/getParent '
             'identity, multi-component getChild, equality and hash vs absolute-path equality, the comma-separated '
             'cgroup argument parser) up to length 5 (thorough: 6); the prekill pattern relation for all (path, pattern) '
             'pairs up to length 3 (thorough: 4) against the three-case reference; resolveWildcard for all patterns up '
             'to length 4 (thorough: 5) on three tmpfs trees (dot-names, plain files shadowing directories, literal * '
             'and ? in names, siblings of the fs root sharing its prefix) against a component-wise glob model; plus '
             'rapidcheck random longer strings (<=16) incl. other punctuation. Non-trivial = a string needing '
             'canonicalisation, a pattern containing * against a non-root path, or a metacharacter pattern resolving to '
             '>=1 directory while a same-named plain file also matches; distinct by (kind, strings).',
        assumptions=['patterns with a "." or ".." component are path navigation, not cgroup names: excluded from '
                     'resolution and counted'],
    ),
    'C12': dict(
        harness='c12', level='exploration', engine='rapidcheck + libFuzzer',
        quick=dict(shards=8, n=10000, size=100, fuzz_jobs=8, fuzz_runs=40000, bin_docs=320),
        thorough=dict(shards=16, n=150000, size=100, fuzz_jobs=16, fuzz_runs=3000000, bin_docs=3000),
        rule='four cooperating checks. (a) libFuzzer (ASan+UBSan) on configuration text with the repository fixtures, '
             'etc/desktop.json and the documentation examples as corpus and a dictionary of keys / plugin names: '
             'JsonConfigParser::parse may reject by exception, compile() and compileDropIn() must never throw and are '
             'deterministic. (b) rapidcheck IR generator over the core plugins with an argument table transcribed from '
             'docs/core_plugins.md: a valid ruleset with at most one defect (unnamed ruleset / group / plugin, unknown '
             'plugin, missing required argument, undeclared argument, a value with no valid reading in its type, bad '
             'silence-logs, non-numeric delays, empty group / chain) must be rejected by compile() and compileDropIn() '
             'without exception, valid ones accepted; scripted plugins are initialised in configuration order with '
             'exactly their arguments. (c) size / percent / megabyte strings from a grammar and its mutations against an '
             'exact 128-bit SizeModel (accepted = exact bytes, >= 2^63 / non-finite / garbage rejected, don\'t-care for '
             'signs, exponents, hex, stray blanks). (d) the real oomd binary: --check-config on corpus documents and '
             'seeded structural mutations must exit 0 or 1, never by signal. Non-trivial = fuzz documents that parse as '
             'JSON with >=1 ruleset and reach the compiler; IR cases with exactly one defect; multi-component or '
             'fractional sizes; distinct by document / case hash.',
        assumptions=['continue / stop are undocumented no-op plugins that ignore their arguments (not in the table)'],
    ),
    'C20': dict(
        harness='c20_tsan', level='exploration',
        quick=dict(shards=8, n=250, size=100, asan_shards=4, asan_n=150),
        thorough=dict(shards=16, n=8000, size=100, asan_shards=8, asan_n=4000),
        confirm_replays=3,
        rule='rapidcheck-generated runs of the real asynchronous Log object: 1-6 producer threads x 1-400 tagged lines of '
             '1 B..64 KiB (small / medium / several MiB in total), per-thread DISABLE/ENABLE windows with a kmsg kill '
             'record written inside the window, generated yields, and a controllable streambuf sink (fast, slow, or '
             'blocked after k bytes until every producer has finished). Oracle: every delivered line intact, at most '
             'once and in per-thread order; delivered + reported dropped = logged; nothing dropped while <= 1 MiB was '
             'ever offered; everything accepted is in the sink when ~Log returns; every flushed batch <= 1 MiB and at '
             'most two queues (2 MiB) arrive from behind a blocked sink; silenced lines absent, kmsg records present; '
             'ThreadSanitizer silent (tsan build) / ASan silent (asan build). Non-trivial = >= 2 producers overlapping a '
             'blocked sink, or more than 1 MiB offered while blocked.',
        assumptions=['thread interleavings are those the scheduler and generated yields produce (sampled, not enumerated)',
                     'the double buffer makes "1 MiB" a per-queue bound: <= 2 MiB unwritten in total'],
    ),
    'C19': dict(
        harness='c19_tsan', level='exploration',
        quick=dict(shards=8, n=40, size=100, asan_shards=8, asan_n=40),
        thorough=dict(shards=16, n=1500, size=100, asan_shards=16, asan_n=1500),
        confirm_replays=3,
        rule='three sub-checks on real Stats objects with real threads and unix sockets. lin: rapidcheck-generated '
             'concurrent programs (2-4 threads x 2-5 operations from increment / set / reset / getAll and socket g / r '
             'clients, generated yields), each executed 12 times; every observed history (invocation / response '
             'stamps, results) must be linearizable against a sequential counter map (exhaustive search, reset keeps '
             'keys). bulk: 2-8 threads x 100-3000 increments sum exactly. proto: 1-6 client sessions (request bytes: '
             'every kind of first byte, with / without terminator, embedded NUL, random bytes, up to 45 bytes; send-and-'
             'read, half-close, connection reset, stall past the 2 s server timeout; sequential or parallel): at most '
             'one reply, well-formed JSON with the specified error / body, then EOF; a following g is answered and '
             'counters are as specified; ~Stats completes (an abort from the destructor kills the harness = violation). '
             'paths: every socket path length 90..130 with _FORTIFY_SOURCE=2: < 108 serves clients, >= 108 is an '
             'initialisation failure. TSan build and ASan build. Non-trivial = a history with >= 2 overlapping '
             'operations, a bulk run, or a session that ends abnormally.',
        assumptions=['thread interleavings are those the scheduler and generated yields produce (sampled, not enumerated)'],
    ),
    'C14': dict(
        harness='c14_tsan', level='exploration',
        quick=dict(shards=8, n=300, size=100, asan_shards=8, asan_n=300),
        thorough=dict(shards=16, n=4000, size=100, asan_shards=16, asan_n=4000),
        confirm_replays=3,
        rule='rapidcheck stateful generation against the real FsDropInService (inotify on tmpfs, its own watcher '
             'thread): optional files present before start-up, then <= 25 operations over 4 file names plus a '
             'dot-file: write (valid / invalid JSON / truncated JSON / parses but does not compile / non-numeric '
             'delay) in 1-3 write(2) calls, rename into / out of / over, delete, remove the directory with its files and '
             're-create it after 0-2 ticks, interleaved with main-loop ticks (updateDropIns, prerun, runOnce) and short '
             'sleeps. Oracle: TSan / ASan silent, process alive; after the last operation a sentinel drop-in is written '
             'and ticks run until it is active (events of one directory are FIFO, so everything earlier has been '
             'applied); then the active drop-ins per base ruleset equal the valid non-dot files present with their latest '
             'content, none twice, newest first when no directory re-creation happened; start-up files are loaded in '
             'name order. A sentinel that is not picked up within 600 ticks and 3 s (orders of magnitude above the few ticks it takes) is reported after three confirming replays. Non-trivial = a '
             'rewrite of an active file together with a directory re-creation, or >= 3 file events between two ticks.',
        assumptions=['watcher / main-loop interleavings are those the scheduler and generated yields produce',
                     'order after a directory re-creation depends on when the watcher thread ran: don\'t-care'],
    ),
}


# What the rounds of independently seeded changes added to the generators / oracles after the rules above were
# written (DESIGN.md section 11); appended to the evidence rule of each property.
ADDENDA = {
    'C01': 'Also generated: blank entries in cgroup lists, multi-tick prekill hooks (the attempted cgroup must be the identity the hook was fired for), flips of memory.oom.group / prefer / avoid between ticks.',
    'C02': 'Also generated: sub-second tick offsets and scripted actions that take virtual time before they answer; prerun-before-run order.',
    'C03': 'Also generated: firing ticks before the judged one with oom.group / preference flips (history tracked per cgroup as prerunOnCgroups does), a twin ruleset repeating a kernelkill action in the same tick (cgroup.kill never goes to an emptied cgroup), multi-tick prekill hooks for the tick-independent metrics (the resumed walk is judged as one sequence); every process of a killed subtree must have been signalled.',
    'C04': 'Also generated: prekill hooks (30 %), systemd_restart under a ruleset-level cgroup (side effects only), restart-only scenarios whose dry and wet virtual time lines must coincide.',
    'C05': 'Also generated: sub-second tick offsets, actions that take virtual time; a second campaign (c05k) with real kill plugins and a scripted following action.',
    'C06': 'Also generated: sub-second tick offsets, actions that take virtual time; a second campaign runs real kill plugins suspended on scripted prekill hooks (C17 harness, VP_PROP=C06): a suspended action is not followed by the next action and is run again on the next tick.',
    'C07': 'Also generated: drop-ins removed and re-added before the run (priority model replays the operations), kill(2) costing 50-900 ms of virtual time so that the hook window closes inside a walk, sub-second ticks; in 35 % of cases directory identities are kernfs-style 64-bit ids (generation << 32 | slot, slot kept per path) handed out by the shim in fstat, so a re-created cgroup differs from its predecessor only in the upper half.',
    'C08': 'Also generated: sub-second ticks, pswpout missing from /proc/vmstat for some ticks, the control file a detector reads absent / unreadable / empty for watched cgroups (an unavailable value contributes nothing).',
    'C09': 'Also generated: one-tick gaps of the pgscan sample with the plugin running on three consecutive ticks; siblings emptied by an earlier kill are not eligible.',
    'C10': 'Also enumerated: keys missing at one tick only, every child of a prefix vanishing for a tick and coming back (never sampled away), re-creation of a subtree only one non-recursive kill looks at, at every access touching it. Oracles added: a ruleset whose action can only run on a fabricated swap-out rate, an always-parking per-cgroup ruleset that must not act on re-created cgroups, containment judged per cgroup identity, and a per-case watchdog (60 s) that turns a hang into a violation. Third campaign (sub_campaigns.statistics_under_faults): the C15 harness with absent / empty / unreadable control files appearing, changing and healing between ticks in every case; every accessor of every cgroup must report the statistic the model derives from what could be read, unavailable where it could not.',
    'C11': 'Also generated: tag attributes with empty values, sub-second ticks.',
    'C12': 'Further sub-checks: typed arguments through a harness plugin (also written as bare JSON numbers), detector-group shape mutations, and documents (valid / wrong shape at a generated node / definitely invalid) delivered through the real FsDropInService at start-up and at run time.',
    'C13': 'Also generated: operations queued in the adaptor and applied as a burst by one updateDropIns(), base rulesets with a ruleset-level cgroup.',
    'C14': 'Also generated: well-formed JSON of the wrong shape, files with a valid and an unknown target, file events from a second thread while the main loop ticks (also right after the directory was re-created), slow plugin initialisation widening compile windows.',
    'C15': 'Also generated: per-file faults (absent / empty / unreadable) appearing and healing between ticks with the statistic expected unavailable, unconfigured devices at any position of io.stat, a child removed at the moment its directory entry is returned (DT_UNKNOWN). Non-trivial also = a case with a file fault.',
    'C16': 'Also checked: equality and hash of the same absolute path reached from deeper cgroup fs roots.',
    'C17': 'Also generated: prekill hooks (the action answers ASYNC_PAUSED exactly while its invocation object lives), a second detector group per ruleset (the record names the group that fired the chain), victims without a readable memory.pressure.',
    'C18': 'Also generated: cgroups renamed out of the pattern and back (same inode): state belongs to what was matched on the previous run.',
    'C19': 'Also generated: requests with filler bytes before a valid mode letter, 15000-30000 counters with clients that read late or never (held across shutdown).',
    'C20': 'Also generated: lines around and above the 1 MiB budget; in the asan build every condition wait can be entered 0.1-4 ms late and shutdown is preceded by a random pause (lost wake-ups show as hangs caught by the watchdog).',
}
for _p, _t in ADDENDA.items():
    PROPS[_p]['rule'] = PROPS[_p]['rule'] + ' ' + _t

# ninth seeded round
_BOOLS = ('Boolean plugin arguments of core plugins are written in every accepted spelling (true/True/1, false/False/0) '
          'in 30 % of the cases.')
_PIDS = 'Pid numbers have one to seven digits (allocation starting just below 2^15, 10^5, 10^6 or near pid_max 4194303).'
_VINO = 'In 25 % of the cases directory identities are kernfs-style 64-bit values (generation << 32 | slot).'
ADDENDA9 = {
    'C01': ' '.join([_PIDS, _BOOLS, _VINO]),
    'C03': ' '.join([_PIDS, _BOOLS, _VINO]),
    'C04': ' '.join([_PIDS, _BOOLS]),
    'C07': ' '.join([_PIDS, _BOOLS]),
    'C08': _BOOLS,
    'C09': ' '.join([_PIDS, _BOOLS]),
    'C10': 'Every kill plugin also runs (dry, on every tick) with a target set that the vanish fault empties entirely.',
    'C11': _VINO,
    'C12': 'typed also generates float texts at the end of the float range (valid), beyond it (must be rejected) and '
           'underflowing it (either answer accepted), and doubles beyond the double range (must be rejected).',
    'C14': 'In 25 % of the cases some file names are padded to 64-255 bytes (inotify events of every length up to NAME_MAX).',
    'C15': ' '.join([_BOOLS, _VINO]),
    'C17': ' '.join([_PIDS, _BOOLS, _VINO]),
    'C18': ' '.join([_BOOLS, _VINO]),
    'C19': 'In 25 % of the proto cases the k-th accept(2) of the case fails with a generated errno (EMFILE, ENFILE, '
           'ENOMEM, ENOBUFS, ECONNABORTED, EINTR, EPROTO, EAGAIN) without consuming the queued connection: every '
           'client must still be served.',
}
for _p, _t in ADDENDA9.items():
    PROPS[_p]['rule'] = PROPS[_p]['rule'] + ' ' + _t


def run_property(r):
    """r: PropRunner. Returns the coverage dict for the evidence file."""
    spec = PROPS[r.prop]
    tier = spec[r.tier]
    fn = globals().get('run_' + r.prop)
    if fn:
        return fn(r, spec, tier)
    return run_generic(r, spec, tier)


def cov_from(agg):
    cov = dict(evaluations=agg['evaluations'], distinct_nontrivial=len(agg['hashes']),
               samples=agg['samples'], labels=agg['labels'], shards=agg['shards'],
               discarded=agg['discarded'],
               excluded_by_known_finding=agg['excluded_by_known_finding'],
               campaign_wall_s=round(agg['wall_s'], 2))
    if agg.get('extra'):
        cov['extra'] = agg['extra']
    return cov


def run_generic(r, spec, tier):
    nrep = r.replay_tier(spec['harness'], extra_env=spec.get('env'))
    agg = r.campaign(spec['harness'], 'main', tier['shards'], tier['n'], tier['size'],
                     extra_env=spec.get('env'), timeout=tier.get('timeout'))
    cov = cov_from(agg)
    cov['replayed'] = nrep
    return cov


def run_C10(r, spec, tier):
    nrep = r.replay_tier(spec['harness'])
    env = {'VP_C10_BASELINES': str(tier['baselines']), 'VP_STRIDE': str(tier['stride'])}
    enum = r.enumerate(spec['harness'], 'enum', tier['shards'], extra_env=env, timeout=tier.get('timeout'))
    agg = r.campaign(spec['harness'], 'multi', tier['gen_shards'], tier['n'], tier['size'])
    # "the affected statistic is reported as unavailable": the C15 harness (every accessor of every cgroup against
    # the statistics model) with control-file faults appearing, changing and healing between ticks in every case
    agg2 = r.campaign('c15', 'stats', tier['gen_shards'], max(100, tier['n'] // 4), tier['size'],
                      extra_env={'VP_PROP': 'C10'})
    cov = cov_from(agg)
    cov['evaluations'] += enum['evaluations'] + agg2['evaluations']
    cov['distinct_nontrivial'] = len(agg['hashes'] | enum['hashes'] | agg2['hashes'])
    cov['sub_campaigns'] = dict(statistics_under_faults=agg2['evaluations'], statistics_labels=agg2['labels'])
    cov['enumerated'] = dict(cases_run=enum['evaluations'], total_cases_per_stride_1=enum['total_cases'],
                             stride=tier['stride'], baselines=tier['baselines'], completed=enum['completed'],
                             labels=enum['labels'])
    cov['exhaustive'] = bool(enum['completed'] and tier['stride'] == 1)
    if not enum['completed']:
        r.notes.append('enumeration did not finish within its time budget (inconclusive part)')
        r.inconclusive += 1
    cov['samples'] = (enum['samples'] + cov['samples'])[:3]
    for k, v in enum['labels'].items():
        cov['labels'][k] = cov['labels'].get(k, 0) + v
    cov['replayed'] = nrep
    return cov


def run_C16(r, spec, tier):
    nrep = r.replay_tier(spec['harness'])
    env = {'VP_C16_DEEP': '1'} if tier['deep'] else {}
    enum = r.enumerate(spec['harness'], 'enum', tier['shards'], extra_env=env)
    agg = r.campaign(spec['harness'], 'rand', tier['gen_shards'], tier['n'], tier['size'], extra_env=env)
    cov = cov_from(agg)
    cov['evaluations'] += enum['evaluations']
    cov['distinct_nontrivial'] = len(agg['hashes'] | enum['hashes'])
    cov['exhaustive'] = bool(enum['completed'])
    cov['enumerated'] = dict(evaluations=enum['evaluations'], batches=enum['total_cases'], completed=enum['completed'],
                             lengths=dict(unary=6 if tier['deep'] else 5, pattern_pairs=4 if tier['deep'] else 3,
                                          resolve=5 if tier['deep'] else 4))
    cov['samples'] = (enum['samples'] + cov['samples'])[:3]
    for k, v in enum['labels'].items():
        cov['labels'][k] = cov['labels'].get(k, 0) + v
    cov['replayed'] = nrep
    return cov


def mutate_docs(seed, n):
    """Seeded structural mutations of the corpus configs for the process-level tier."""
    import glob as _g, json as _j, random, os as _os
    rnd = random.Random(seed)
    base = []
    here = _os.path.dirname(_os.path.dirname(_os.path.abspath(__file__)))
    for f in sorted(_g.glob(_os.path.join(here, 'corpus', 'C12', '*.json'))):
        txt = open(f).read()
        try:
            base.append((_os.path.basename(f), _j.loads(txt), txt))
        except Exception:
            base.append((_os.path.basename(f), None, txt))
    docs = [(b[0], b[2]) for b in base]
    wrong = [None, 1, -1, 1.5, True, [], {}, "", "abc", [1, 2], {"name": 3}, "99999999999999999999", 1e308,
             "nan", [[[]]], {"args": []}]

    def paths(v, pre=()):
        out = [pre]
        if isinstance(v, dict):
            for k in v:
                out += paths(v[k], pre + (k,))
        elif isinstance(v, list):
            for i in range(len(v)):
                out += paths(v[i], pre + (i,))
        return out

    objs = [b for b in base if b[1] is not None]
    while len(docs) < n and objs:
        name, obj, txt = rnd.choice(objs)
        kind = rnd.randrange(6)
        if kind == 0:  # truncated / corrupted text
            cut = rnd.randrange(len(txt) + 1)
            docs.append((name + ':cut', txt[:cut]))
            continue
        if kind == 1:
            i = rnd.randrange(len(txt))
            docs.append((name + ':byte', txt[:i] + rnd.choice('{}[]",:x0\\\n') + txt[i + 1:]))
            continue
        o = _j.loads(_j.dumps(obj))
        ps = [p for p in paths(o) if p]
        p = rnd.choice(ps)
        cur = o
        for k in p[:-1]:
            cur = cur[k]
        if kind == 2:
            cur[p[-1]] = rnd.choice(wrong)
        elif kind == 3:
            del cur[p[-1]]
        elif kind == 4 and isinstance(cur, dict):
            cur[rnd.choice(['bogus', 'name', 'args', 'cgroup', 'post_action_delay'])] = rnd.choice(wrong)
        else:
            cur[p[-1]] = [cur[p[-1]]]
        docs.append((name + ':mut', _j.dumps(o)))
    return docs[:n]


def run_C12(r, spec, tier):
    import os
    nrep = r.replay_tier(spec['harness'])
    agg = r.campaign(spec['harness'], 'main', tier['shards'], tier['n'], tier['size'])
    cov = cov_from(agg)
    here = os.path.dirname(os.path.dirname(os.path.abspath(__file__)))
    fz = r.fuzz('c12_fuzz', 'fuzz', tier['fuzz_jobs'], tier['fuzz_runs'], os.path.join(here, 'corpus', 'C12'),
                dict_file=os.path.join(here, 'corpus', 'C12.dict'))
    docs = mutate_docs(r.seed, tier['bin_docs'])
    bn = r.bincheck(docs)
    cov['evaluations'] += fz['evaluations'] + bn['n']
    cov['distinct_nontrivial'] += fz['distinct']
    cov['fuzz'] = dict(executions=fz['evaluations'], parsed_as_json=fz['parsed'], accepted_by_compile=fz['accepted'],
                       distinct_reached_compiler=fz['distinct'], jobs=fz['shards'], wall_s=round(fz['wall_s'], 1))
    cov['binary'] = bn
    cov['samples'] = (cov['samples'] + fz['samples'][:1])[:4]
    cov['replayed'] = nrep
    return cov


def run_C20(r, spec, tier):
    nrep = r.replay_tier('c20_tsan')
    env = {'VP_SHRINK_BUDGET': '120'}
    agg = r.campaign('c20_tsan', 'tsan', tier['shards'], tier['n'], tier['size'], extra_env=env)
    agg2 = r.campaign('c20_asan', 'asan', tier['asan_shards'], tier['asan_n'], tier['size'], extra_env=env)
    cov = cov_from(agg)
    cov['evaluations'] += agg2['evaluations']
    cov['distinct_nontrivial'] = len(agg['hashes'] | agg2['hashes'])
    cov['flavours'] = dict(tsan=agg['evaluations'], asan=agg2['evaluations'])
    for k, v in agg2['labels'].items():
        cov['labels'][k] = cov['labels'].get(k, 0) + v
    cov['replayed'] = nrep
    return cov


def run_C19(r, spec, tier):
    import subprocess, json, os
    from vpdriver import build_harness, SAN_ENV
    nrep = r.replay_tier('c19_asan')
    env = {'VP_SHRINK_BUDGET': '60'}
    agg = r.campaign('c19_tsan', 'tsan', tier['shards'], tier['n'], tier['size'], extra_env=env)
    agg2 = r.campaign('c19_asan', 'asan', tier['asan_shards'], tier['asan_n'], tier['size'], extra_env=env)
    cov = cov_from(agg)
    cov['evaluations'] += agg2['evaluations']
    cov['distinct_nontrivial'] = len(agg['hashes'] | agg2['hashes'])
    cov['flavours'] = dict(tsan=agg['evaluations'], asan=agg2['evaluations'])
    for k, v in agg2['labels'].items():
        cov['labels'][k] = cov['labels'].get(k, 0) + v
    # socket path lengths, exhaustive 90..130
    b = build_harness('c19_fort')
    pr = subprocess.run([b, '90', '130'], capture_output=True, text=True, errors='replace')
    lines = [l for l in pr.stdout.splitlines() if l.startswith('{')]
    okc = 0
    badlen = None
    for l in lines:
        try:
            o = json.loads(l)
            okc += 1 if o.get('ok') else 0
            if not o.get('ok') and badlen is None:
                badlen = o.get('len')
        except Exception:
            badlen = badlen or l
    cov['socket_path_lengths'] = dict(lengths_checked=len(lines), ok=okc, exhaustive_range='90..130',
                                      build='g++ -O2 -D_FORTIFY_SOURCE=2')
    cov['evaluations'] += len(lines)
    if pr.returncode != 0 or okc != 41:
        why = 'socket path length %s: %s' % (badlen, (pr.stderr or pr.stdout)[-300:].replace('\n', ' '))
        from vpdriver import match_known, save_violation
        k = match_known(r.prop, why, why)
        if k:
            r.known_hits[k['what']] = r.known_hits.get(k['what'], 0) + 1
        else:
            path = save_violation(r.prop, {'property': 'C19', 'harness': 'c19_fort', 'why': why,
                                           'case': {'sub': 'paths', 'from': 90, 'to': 130}}, 'paths')
            r.violations.append((why, path))
    cov['replayed'] = nrep
    return cov


def run_C14(r, spec, tier):
    nrep = r.replay_tier('c14_asan')
    env = {'VP_SHRINK_BUDGET': '40'}
    agg = r.campaign('c14_tsan', 'tsan', tier['shards'], tier['n'], tier['size'], extra_env=env)
    agg2 = r.campaign('c14_asan', 'asan', tier['asan_shards'], tier['asan_n'], tier['size'], extra_env=env)
    cov = cov_from(agg)
    cov['evaluations'] += agg2['evaluations']
    cov['discarded'] += agg2['discarded']
    cov['distinct_nontrivial'] = len(agg['hashes'] | agg2['hashes'])
    cov['flavours'] = dict(tsan=agg['evaluations'], asan=agg2['evaluations'])
    for k, v in agg2['labels'].items():
        cov['labels'][k] = cov['labels'].get(k, 0) + v
    cov['replayed'] = nrep
    return cov


def run_C06(r, spec, tier):
    nrep = r.replay_tier(spec['harness'], extra_env=spec.get('env'))
    agg = r.campaign(spec['harness'], 'main', tier['shards'], tier['n'], tier['size'], extra_env=spec.get('env'))
    # a real kill plugin suspended on its prekill hook (the C17 harness in its C06 mode)
    agg2 = r.campaign('c17', 'kill', tier['shards'], max(100, tier['n'] // 8), tier['size'], extra_env=spec.get('env'))
    # per-cgroup ruleset instances pausing independently (the C11 harness): the context of every resumed run,
    # target cgroup included, is the one the chain was fired with
    agg3 = r.campaign('c11', 'percg', tier['shards'], max(100, tier['n'] // 8), tier['size'], extra_env=spec.get('env'))
    cov = cov_from(agg)
    cov['evaluations'] += agg2['evaluations'] + agg3['evaluations']
    cov['distinct_nontrivial'] = len(agg['hashes'] | agg2['hashes'] | agg3['hashes'])
    cov['sub_campaigns'] = dict(scripted_plugins=agg['evaluations'], real_kill_plugins=agg2['evaluations'],
                                real_kill_labels=agg2['labels'], per_cgroup_instances=agg3['evaluations'])
    cov['replayed'] = nrep
    return cov


def run_C05(r, spec, tier):
    nrep = r.replay_tier(spec['harness'], extra_env=spec.get('env'))
    agg = r.campaign(spec['harness'], 'main', tier['shards'], tier['n'], tier['size'], extra_env=spec.get('env'))
    agg2 = r.campaign('c05k', 'kill', tier['shards'], max(100, tier['n'] // 8), tier['size'])
    cov = cov_from(agg)
    cov['evaluations'] += agg2['evaluations']
    cov['distinct_nontrivial'] = len(agg['hashes'] | agg2['hashes'])
    cov['sub_campaigns'] = dict(scripted_plugins=agg['evaluations'], real_kill_plugins=agg2['evaluations'],
                                real_kill_labels=agg2['labels'])
    cov['replayed'] = nrep
    return cov
