"""Per-property configuration: harness, tiers, level, non-triviality rule."""

HARNESSES = {
    'c01': dict(flavour='asan', srcs=['c01.cpp']),
}

PROPS = {
    'C01': dict(
        harness='c01', level='exploration',
        quick=dict(shards=8, n=500, size=100),
        thorough=dict(shards=16, n=20000, size=100),
        rule='rapidcheck-generated scenario = cgroup tree (<=14 cgroups, wildcard-ambiguous names, 0-45 pids, '
             'pid-0 lines, per-pid kill outcomes) x 1-2 rulesets with one of the five kill plugins and random '
             'arguments x 1-6 tick history with cgroups removed/created/re-created; the real Oomd::run is driven '
             'tick by tick and every kill/setxattr/control-file write/pidfd_open is judged against the world model. '
             'Non-trivial = a kill action signalled >=1 process while another populated cgroup existed outside the '
             'victim subtree; distinct = distinct scenario JSON (hash set).',
        assumptions=['libc-boundary shim and SimWorld kernel model (DESIGN.md 3.2/3.3)',
                     'tmpfs on /dev/shm behaves like cgroupfs for readdir/openat/xattr'],
    ),
}


def run_property(r):
    """r: PropRunner. Returns the coverage dict for the evidence file."""
    spec = PROPS[r.prop]
    tier = spec[r.tier]
    fn = globals().get('run_' + r.prop)
    if fn:
        return fn(r, spec, tier)
    return run_generic(r, spec, tier)


def cov_from(agg):
    cov = dict(evaluations=agg['evaluations'], distinct_nontrivial=len(agg['hashes']),
               samples=agg['samples'], labels=agg['labels'], shards=agg['shards'],
               discarded=agg['discarded'],
               excluded_by_known_finding=agg['excluded_by_known_finding'],
               campaign_wall_s=round(agg['wall_s'], 2))
    if agg.get('extra'):
        cov['extra'] = agg['extra']
    return cov


def run_generic(r, spec, tier):
    nrep = r.replay_tier(spec['harness'])
    agg = r.campaign(spec['harness'], 'main', tier['shards'], tier['n'], tier['size'],
                     timeout=tier.get('timeout'))
    cov = cov_from(agg)
    cov['replayed'] = nrep
    return cov
