#!/bin/bash
# Confirms a sub-agent's seeded change in its scratch worktree ${SEED_ROOT:-/tmp/seed9}/<ID> (SEED_ROOT):
# test-suite passes with the change, demo fails with it and passes without it.
# usage: seedcheck.sh <ID> ; prints a summary, exit 0 if all three hold
id=$1
d=${SEED_ROOT:-/tmp/seed9}/$id
cd $d || exit 2
[ -f patch.diff ] || { echo "no patch.diff"; exit 2; }
git diff --quiet -- src && { echo "worktree has no source change applied; applying patch.diff"; git apply patch.diff || exit 2; }
[ -d _b ] || meson setup _b >/dev/null 2>&1
ninja -C _b >/dev/null 2>&1 || { echo "BUILD FAILS with change"; exit 1; }
t=$(meson test -C _b 2>&1 | grep -E "^(Ok|Fail):" | tr -s ' ' | tr '\n' ' ')
echo "tests with change: $t"
echo "$t" | grep -q "Fail: 0" || { echo "TESTS FAIL with change"; exit 1; }
bash demo/run.sh >${SEED_ROOT:-/tmp/seed9}/$id.with.log 2>&1; w=$?
echo "demo with change: exit $w"
# (no git stash: the stash is shared between all worktrees of one repository)
git diff -- src > ${SEED_ROOT:-/tmp/seed9}/$id.current.diff
git apply -R ${SEED_ROOT:-/tmp/seed9}/$id.current.diff || exit 2
ninja -C _b >/dev/null 2>&1
bash demo/run.sh >${SEED_ROOT:-/tmp/seed9}/$id.without.log 2>&1; wo=$?
echo "demo without change: exit $wo"
git apply ${SEED_ROOT:-/tmp/seed9}/$id.current.diff || exit 2
ninja -C _b >/dev/null 2>&1
if [ $w -ne 0 ] && [ $wo -eq 0 ]; then echo "CONFIRMED"; exit 0; fi
echo "NOT CONFIRMED"; exit 1
