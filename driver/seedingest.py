#!/usr/bin/env python3
"""seedingest.py <ID> <name> "<needs>": copies a confirmed seeded change from /tmp/seed/<ID> to
/verif/seeded/<name>/ (patch.diff, demo/, NOTES.md, meta.json)."""
import json, os, shutil, subprocess, sys
pid, name, needs = sys.argv[1], sys.argv[2], sys.argv[3]
src = os.environ.get('SEED_ROOT', '/tmp/seed9') + '/' + pid
dst = '/verif/seeded/' + name
os.makedirs(dst, exist_ok=True)
# the agent's own patch.diff is authoritative (the worktree state may have been disturbed);
# make sure it is what the worktree currently holds
diff = open(src + '/patch.diff').read()
cur = subprocess.check_output(['git', '-C', src, 'diff', '--', 'src']).decode()
if cur.strip() != diff.strip():
    print('ERROR: worktree state differs from patch.diff; restore it first')
    sys.exit(1)
open(dst + '/patch.diff', 'w').write(diff)
if os.path.isdir(dst + '/demo'):
    shutil.rmtree(dst + '/demo')
shutil.copytree(src + '/demo', dst + '/demo', ignore=shutil.ignore_patterns('*.o', 'demo_bin', 'a.out', '*.bin', 'build*', '_*'))
# drop built binaries
for root, dirs, files in os.walk(dst + '/demo'):
    for f in files:
        p = os.path.join(root, f)
        if os.path.getsize(p) > 300000 or (os.access(p, os.X_OK) and not f.endswith('.sh')):
            try:
                with open(p, 'rb') as fh:
                    if fh.read(4) == b'\x7fELF':
                        os.unlink(p)
            except OSError:
                pass
if os.path.exists(src + '/NOTES.md'):
    shutil.copy(src + '/NOTES.md', dst + '/NOTES.md')
meta = dict(property=pid, name=name, needs_to_manifest=needs,
            origin='independent sub-agent given only the property text and a scratch worktree of /repo',
            confirmed_by='driver/seedcheck.sh %s: test-suite passes with the change, demo fails with it, passes without it' % pid,
            base_commit=subprocess.check_output(['git', '-C', src, 'rev-parse', '--short', 'HEAD']).decode().strip())
json.dump(meta, open(dst + '/meta.json', 'w'), indent=1)
print('ingested', dst)
