#!/usr/bin/env python3
"""seedsetup.py <root>: creates one scratch git worktree of /repo per property under <root>/<ID> with
PROPERTY.txt (the property's text only) and AVOID.txt (what the earlier seeded changes of that property did),
and <root>/INSTRUCTIONS.md. Nothing from /verif's machinery is copied."""
import json, os, re, subprocess, sys, glob
root = sys.argv[1]
ids = sys.argv[2:] or None
os.makedirs(root, exist_ok=True)
props = [json.loads(l) for l in open('/verif/properties.jsonl')]
open(root + '/INSTRUCTIONS.md', 'w').write(open('/verif/driver/seed_instructions.md').read().replace('@ROOT@', root))
for p in props:
    pid = p['id']
    if ids and pid not in ids:
        continue
    d = '%s/%s' % (root, pid)
    if not os.path.isdir(d):
        subprocess.check_call(['git', '-C', '/repo', 'worktree', 'add', '--detach', d, 'HEAD'], stdout=subprocess.DEVNULL)
    with open(d + '/PROPERTY.txt', 'w') as f:
        f.write('%s: %s\n\n%s\n\nQuantified %s\n\nWhy the existing tests cannot settle it: %s\n' % (
            pid, p['title'], p['statement'], p['quantifier']['text'], p.get('why_tests_cant', '')))
        f.write('\nCode anchors: %s\n' % ', '.join(p.get('anchors', {}).get('files', [])))
    with open(d + '/AVOID.txt', 'w') as f:
        f.write('Changes already made for %s by other people (yours must differ from all of them):\n\n' % pid)
        for m in sorted(glob.glob('/verif/seeded/%s-*/meta.json' % pid.lower())):
            meta = json.load(open(m))
            diff = open(os.path.dirname(m) + '/patch.diff').read()
            files = sorted(set(re.findall(r'^\+\+\+ b/(\S+)', diff, re.M)))
            funcs = sorted(set(x.strip() for x in re.findall(r'^@@[^@]*@@ (.*)$', diff, re.M)))[:4]
            f.write('- %s\n  files: %s\n  near: %s\n  needs: %s\n\n' % (
                meta['name'], ', '.join(files), ' | '.join(funcs), meta['needs_to_manifest']))
print('ok')
