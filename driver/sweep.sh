#!/bin/bash
# seed sweep over every property's quick tier; prints one line per (seed, property)
cd "$(dirname "$0")/.."
for s in ${SEEDS:-2 3 4 5}; do
  for p in ${PROPLIST:-C01 C02 C03 C04 C05 C06 C07 C08 C09 C10 C11 C12 C13 C14 C15 C16 C17 C18 C19 C20}; do
    out=$(VERIF_SEED=$s ./check run $p --tier ${TIER:-quick} 2>&1)
    rc=$?
    echo "seed=$s $p rc=$rc $(echo "$out" | grep -E '^(OK|VIOLATION|KNOWN)' | head -2 | tr '\n' ' ')"
    if [ $rc -ne 0 ]; then echo "$out" | grep -E 'violation:|ERROR' | head -3; fi
  done
done
