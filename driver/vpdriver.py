"""oomd verification driver: build cache, tiers, seeds, shards, replay, evidence,
known findings. Python standard library only."""
import fcntl
import glob
import hashlib
import json
import os
import re
import shutil
import signal
import subprocess
import sys
import time
from concurrent.futures import ThreadPoolExecutor

VERIF = os.path.dirname(os.path.dirname(os.path.abspath(__file__)))
REPO = os.environ.get('VERIF_REPO', '/repo')
BUILD = os.environ.get('VERIF_BUILD', os.path.join(VERIF, 'build'))
HARNESS = os.path.join(VERIF, 'harness')
OUTDIR = os.environ.get('VERIF_OUT', VERIF)  # evidence/ and violations/ (mutant runs redirect this)
NCPU = int(os.environ.get('VERIF_JOBS', os.cpu_count() or 4))
GUARD = 'OOMD_VERIF'

sys.path.insert(0, os.path.dirname(os.path.abspath(__file__)))
from props import PROPS, HARNESSES  # noqa: E402


def log(*a):
    print(*a, file=sys.stderr, flush=True)


def sha(*parts):
    h = hashlib.sha256()
    for p in parts:
        if isinstance(p, str):
            p = p.encode()
        h.update(p)
        h.update(b'\0')
    return h.hexdigest()[:16]


def read(p):
    with open(p, 'rb') as f:
        return f.read()


def splitmix64(x):
    x = (x + 0x9E3779B97F4A7C15) & 0xFFFFFFFFFFFFFFFF
    z = x
    z = ((z ^ (z >> 30)) * 0xBF58476D1CE4E5B9) & 0xFFFFFFFFFFFFFFFF
    z = ((z ^ (z >> 27)) * 0x94D049BB133111EB) & 0xFFFFFFFFFFFFFFFF
    return z ^ (z >> 31)


def derive_seed(seed, prop, shard):
    h = int(hashlib.sha256(prop.encode()).hexdigest()[:16], 16)
    return splitmix64(splitmix64(seed ^ h) + shard) & 0x7FFFFFFFFFFFFFFF


# ---------------------------------------------------------------- build ----
FLAVOURS = {
    'asan': dict(
        cxx='clang++',
        cflags='-std=c++20 -O1 -gline-tables-only -fno-omit-frame-pointer '
               '-fsanitize=address,undefined -fno-sanitize-recover=undefined '
               '-D_GLIBCXX_ASSERTIONS -DMESON_BUILD -D%s -pthread' % GUARD,
        ldflags='-fsanitize=address,undefined -pthread'),
    'tsan': dict(
        cxx='clang++',
        cflags='-std=c++20 -O1 -gline-tables-only -fno-omit-frame-pointer '
               '-fsanitize=thread -D_GLIBCXX_ASSERTIONS -DMESON_BUILD -D%s -pthread' % GUARD,
        ldflags='-fsanitize=thread -pthread'),
    'fuzz': dict(
        cxx='clang++',
        cflags='-std=c++20 -O1 -gline-tables-only -fno-omit-frame-pointer '
               '-fsanitize=fuzzer-no-link,address,undefined -fno-sanitize-recover=undefined '
               '-D_GLIBCXX_ASSERTIONS -DMESON_BUILD -D%s -pthread' % GUARD,
        ldflags='-fsanitize=fuzzer,address,undefined -pthread'),
    'fort': dict(
        cxx='g++',
        cflags='-std=c++20 -O2 -g1 -D_FORTIFY_SOURCE=2 -DMESON_BUILD -D%s -pthread' % GUARD,
        ldflags='-pthread'),
}
LIBS = '-ljsoncpp -lsystemd -lrapidcheck -ldl'


def oomd_sources():
    txt = read(os.path.join(REPO, 'meson.build')).decode()
    out = []
    for m in re.finditer(r'(src/oomd/[\w/.\-]+\.cpp)', txt):
        p = m.group(1)
        if 'Test' in p or 'fixtures/' in p or p.endswith('util/Fixture.cpp') or p.endswith('/Main.cpp'):
            continue
        if p not in out:
            out.append(p)
    return out


def headers_hash(root):
    h = hashlib.sha256()
    for dp, dn, fn in sorted(os.walk(root)):
        dn.sort()
        for f in sorted(fn):
            if f.endswith('.h') or f.endswith('.h.in'):
                p = os.path.join(dp, f)
                h.update(p[len(root):].encode())
                h.update(read(p))
    return h.hexdigest()[:16]


def ensure_version_h(incdir):
    os.makedirs(incdir, exist_ok=True)
    p = os.path.join(incdir, 'Version.h')
    if not os.path.exists(p):
        with open(p, 'w') as f:
            f.write('#define GIT_VERSION "verif"\n')


class Builder:
    def __init__(self, flavour):
        self.flavour = flavour
        self.cfg = FLAVOURS[flavour]
        self.dir = os.path.join(BUILD, flavour)
        self.obj = os.path.join(self.dir, 'obj')
        self.bin = os.path.join(self.dir, 'bin')
        self.inc = os.path.join(self.dir, 'inc')
        for d in (self.obj, self.bin, self.inc):
            os.makedirs(d, exist_ok=True)
        ensure_version_h(self.inc)
        self.oomd_hdr = headers_hash(os.path.join(REPO, 'src'))
        self.harness_hdr = headers_hash(HARNESS)

    def cflags(self):
        return '%s -I%s/src -I%s -I/usr/include/jsoncpp -I%s' % (
            self.cfg['cflags'], REPO, self.inc, HARNESS)

    def compile_one(self, src, key_extra):
        stem = re.sub(r'[^\w]', '_', os.path.relpath(src, '/'))[-80:]
        key = sha(read(src), self.cfg['cxx'], self.cfg['cflags'], key_extra)
        out = os.path.join(self.obj, '%s.%s.o' % (stem, key))
        if os.path.exists(out):
            os.utime(out, None)
            return out, None
        tmp = out + '.tmp%d' % os.getpid()
        cmd = '%s %s -c %s -o %s' % (self.cfg['cxx'], self.cflags(), src, tmp)
        t0 = time.time()
        r = subprocess.run(cmd, shell=True, capture_output=True, text=True)
        if r.returncode != 0:
            return None, 'compile failed: %s\n%s' % (cmd, r.stderr[-4000:])
        os.rename(tmp, out)
        return out, '%.1fs %s' % (time.time() - t0, os.path.basename(src))

    def compile_many(self, jobs):
        """jobs: list of (src, key_extra) -> list of object paths"""
        objs = [None] * len(jobs)
        errs = []
        with ThreadPoolExecutor(NCPU) as ex:
            futs = {ex.submit(self.compile_one, s, k): i for i, (s, k) in enumerate(jobs)}
            for f, i in futs.items():
                o, msg = f.result()
                if o is None:
                    errs.append(msg)
                objs[i] = o
        if errs:
            raise BuildError('\n'.join(errs))
        return objs

    def oomd_objs(self, with_main=False):
        srcs = [os.path.join(REPO, s) for s in oomd_sources()]
        if with_main:
            srcs.append(os.path.join(REPO, 'src/oomd/Main.cpp'))
        return self.compile_many([(s, self.oomd_hdr) for s in srcs])

    def harness_bin(self, name):
        spec = HARNESSES[name]
        oomd = self.oomd_objs(with_main=spec.get('with_main', False))
        hsrcs = list(spec['srcs'])
        if spec.get('common', True):
            hsrcs += ['shim.cpp', 'simworld.cpp', 'plugins.cpp', 'core.cpp']
        for extra in spec.get('extra', []):
            hsrcs.append(extra)
        hobjs = self.compile_many(
            [(os.path.join(HARNESS, s), self.oomd_hdr + self.harness_hdr) for s in hsrcs])
        key = sha(*(oomd + hobjs), self.cfg['ldflags'], spec.get('libs', LIBS))
        out = os.path.join(self.bin, '%s.%s' % (name, key))
        if not os.path.exists(out):
            tmp = out + '.tmp%d' % os.getpid()
            cmd = '%s %s %s %s -o %s %s' % (
                self.cfg['cxx'], self.cfg['ldflags'], ' '.join(hobjs), ' '.join(oomd), tmp,
                spec.get('libs', LIBS))
            r = subprocess.run(cmd, shell=True, capture_output=True, text=True)
            if r.returncode != 0:
                raise BuildError('link failed: %s\n%s' % (name, r.stderr[-4000:]))
            os.rename(tmp, out)
        else:
            os.utime(out, None)
        self.prune()
        return out

    def prune(self):
        # keep the newest few variants per stem so scratch builds do not pile up
        for d, keep in ((self.obj, 4), (self.bin, 3)):
            groups = {}
            for f in os.listdir(d):
                if '.tmp' in f:
                    continue
                stem = f.split('.')[0]
                groups.setdefault(stem, []).append(f)
            for stem, fs in groups.items():
                if len(fs) <= keep:
                    continue
                fs.sort(key=lambda f: os.path.getmtime(os.path.join(d, f)), reverse=True)
                for f in fs[keep:]:
                    try:
                        os.unlink(os.path.join(d, f))
                    except OSError:
                        pass


class BuildError(Exception):
    pass


def build_harness(name):
    flavour = HARNESSES[name]['flavour']
    os.makedirs(os.path.join(BUILD, flavour), exist_ok=True)
    lock = open(os.path.join(BUILD, flavour, '.lock'), 'w')
    fcntl.flock(lock, fcntl.LOCK_EX)
    try:
        return Builder(flavour).harness_bin(name)
    finally:
        fcntl.flock(lock, fcntl.LOCK_UN)
        lock.close()


# ------------------------------------------------------- known findings ----
def load_known():
    p = os.path.join(VERIF, 'known_findings.json')
    if not os.path.exists(p):
        return []
    return json.load(open(p))


def match_known(prop, why, crash_sig=None):
    """A violation is 'known' iff a status=known entry of this property has a
    signature regex matching the oracle message / crash signature."""
    for e in load_known():
        if e.get('property') != prop or e.get('status') != 'known':
            continue
        sig = e.get('signature', {})
        if 'why_regex' in sig and why and re.search(sig['why_regex'], why):
            return e
        if 'crash_regex' in sig and crash_sig and re.search(sig['crash_regex'], crash_sig):
            return e
    return None


# ------------------------------------------------------------- running ----
SAN_ENV = {
    'ASAN_OPTIONS': 'exitcode=97:abort_on_error=0:detect_leaks=0:allocator_may_return_null=1:handle_segv=1:handle_abort=1',
    'UBSAN_OPTIONS': 'exitcode=96:halt_on_error=1:print_stacktrace=1',
    'TSAN_OPTIONS': 'exitcode=95:halt_on_error=1:second_deadlock_stack=1',
}

# long campaigns: ASan's stack depot of allocation contexts grows without bound with 30-frame contexts over
# hundreds of thousands of generated cases (10 GB per shard observed); 8 frames keep a shard near 450 MB. Replays and
# judging keep the default depth for full reports.
LONG_RUN_ASAN = ':malloc_context_size=8'


def run_proc(cmd, env=None, timeout=None, cwd=None):
    e = dict(os.environ)
    e.update(SAN_ENV)
    e.pop('VP_LOG', None) if 'VP_LOG' not in os.environ else None
    if env:
        e.update(env)
    t0 = time.time()
    try:
        r = subprocess.run(cmd, env=e, capture_output=True, text=True, timeout=timeout,
                           cwd=cwd, errors='replace')
        return r.returncode, r.stdout, r.stderr, time.time() - t0
    except subprocess.TimeoutExpired as ex:
        so = ex.stdout.decode(errors='replace') if isinstance(ex.stdout, bytes) else (ex.stdout or '')
        se = ex.stderr.decode(errors='replace') if isinstance(ex.stderr, bytes) else (ex.stderr or '')
        return -999, so, se, time.time() - t0


def crash_signature(stderr):
    """(kind, first oomd frame) from a sanitizer / abort report."""
    kind = 'crash'
    if 'VP-WATCHDOG' in stderr:
        # the harness's per-case watchdog fired: the code under test did not return
        frame = '?'
        for m in re.finditer(r'#\d+ 0x[0-9a-f]+ in ([^\n]+?) (/[^\s:]+):(\d+)', stderr):
            if '/src/oomd/' in m.group(2):
                frame = re.sub(r'\(.*', '', m.group(1)).strip() + '@' + os.path.basename(m.group(2))
                break
        return 'hang (no return within the watchdog time) in %s' % frame
    m = re.search(r'ERROR: AddressSanitizer: ([\w\-]+)', stderr)
    if m and m.group(1) == 'ABRT' and ('Assertion' in stderr or '__glibcxx_assert' in stderr):
        kind = 'assert'
    elif m and m.group(1) == 'ABRT' and 'terminate called' in stderr:
        mm = re.search(r"terminate called after throwing an instance of '([^']+)'", stderr)
        kind = 'terminate:' + (mm.group(1) if mm else '?')
    elif m:
        kind = 'asan:' + m.group(1)
    else:
        m = re.search(r'runtime error: ([^\n]+)', stderr)
        if m:
            kind = 'ubsan:' + re.sub(r'0x[0-9a-f]+|\d+', 'N', m.group(1))[:80]
        elif 'ThreadSanitizer' in stderr:
            m = re.search(r'WARNING: ThreadSanitizer: ([^\n(]+)', stderr)
            kind = 'tsan:' + (m.group(1).strip() if m else '?')
        elif 'terminate called' in stderr:
            m = re.search(r"terminate called after throwing an instance of '([^']+)'", stderr)
            kind = 'terminate:' + (m.group(1) if m else '?')
        elif 'Assertion' in stderr or '__glibcxx_assert' in stderr:
            kind = 'assert'
        elif 'AddressSanitizer: ABRT' in stderr:
            kind = 'abort'
    frame = '?'
    if kind.startswith('tsan'):
        for m in re.finditer(r'#\d+ ([^\n]+?) (/[^\s:]+):(\d+)', stderr):
            fn, path = m.group(1), m.group(2)
            if '/src/oomd/' in path:
                frame = re.sub(r'\(.*', '', fn).strip() + '@' + os.path.basename(path)
                break
        return '%s in %s' % (kind, frame)
    for m in re.finditer(r'#\d+ 0x[0-9a-f]+ in ([^\n]+?) (/[^\s:]+):(\d+)', stderr):
        fn, path = m.group(1), m.group(2)
        if '/src/oomd/' in path:
            frame = re.sub(r'\(.*', '', fn).strip() + '@' + os.path.basename(path)
            break
    return '%s in %s' % (kind, frame)


def cleanup_scratch(pid):
    for p in glob.glob('/dev/shm/vp-%d-*' % pid):
        shutil.rmtree(p, ignore_errors=True)


def tmpdir_for(prop):
    d = os.path.join('/dev/shm', 'vpdrv-%s-%d' % (prop, os.getpid()))
    shutil.rmtree(d, ignore_errors=True)
    os.makedirs(d)
    return d


def save_violation(prop, case_obj, tag):
    d = os.path.join(OUTDIR, 'violations')
    os.makedirs(d, exist_ok=True)
    p = os.path.join(d, '%s-%s.json' % (prop, tag))
    with open(p, 'w') as f:
        json.dump(case_obj, f)
        f.write('\n')
    return p


# generic JSON delta-debugging for crashing cases (sanitizer aborts bypass
# rapidcheck's shrinking)
def ddmin_json(case, still_fails, budget_s=120):
    t_end = time.time() + budget_s

    def paths(v, pre=()):
        out = []
        if isinstance(v, list):
            for i in range(len(v) - 1, -1, -1):
                out.append(pre + (i,))
                out += paths(v[i], pre + (i,))
        elif isinstance(v, dict):
            for k in sorted(v.keys()):
                out.append(pre + (k,))
                out += paths(v[k], pre + (k,))
        return out

    def remove(v, path):
        v = json.loads(json.dumps(v))
        cur = v
        for p in path[:-1]:
            cur = cur[p]
        try:
            del cur[path[-1]]
        except (KeyError, IndexError):
            return None
        return v

    changed = True
    while changed and time.time() < t_end:
        changed = False
        ps = paths(case)
        # try big chunks first: shorter paths first
        ps.sort(key=len)
        for p in ps:
            if time.time() > t_end:
                break
            cand = remove(case, p)
            if cand is None:
                continue
            if still_fails(cand):
                case = cand
                changed = True
                break
    return case


class PropRunner:
    def __init__(self, prop, tier, seed):
        self.prop = prop
        self.tier = tier
        self.seed = seed
        self.spec = PROPS[prop]
        self.tmp = tmpdir_for(prop)
        self.violations = []  # (why, path)
        self.known_hits = {}
        self.notes = []
        self.inconclusive = 0

    def cleanup(self):
        shutil.rmtree(self.tmp, ignore_errors=True)

    # -- one replay ---------------------------------------------------------
    def replay(self, binpath, casefile, env=None, timeout=150):
        rc, so, se, dt = run_proc([binpath, 'replay', casefile], env=env, timeout=timeout)
        why = ''
        m = re.search(r'REPLAY-FAIL (.*)', so)
        if m:
            why = m.group(1).strip()
        if rc == 0:
            return 'ok', '', se
        if rc == 1 and m:
            return 'fail', why, se
        if rc == -999:
            return 'timeout', 'timeout', se
        if rc == 2:
            return 'infra', se[-500:], se
        return 'crash', crash_signature(se), se

    def judge(self, binpath, case_obj, why, kind, env=None, crash_sig=None):
        """case_obj: {'case':..., 'why':...}; confirm by replay, then either
        known finding or violation."""
        nsig = re.sub(r'\d+', 'N', re.sub(r' under faults .*', '', (crash_sig or why or '')))[:160]
        judged = getattr(self, 'judged_sigs', None)
        if judged is None:
            judged = self.judged_sigs = set()
        if nsig in judged:
            return
        judged.add(nsig)
        k = match_known(self.prop, why, crash_sig)
        if k:
            self.known_hits.setdefault(k['what'], 0)
            self.known_hits[k['what']] += 1
            return
        tag = sha(json.dumps(case_obj, sort_keys=True))[:10]
        tmpf = os.path.join(self.tmp, 'cand-%s.json' % tag)
        json.dump(case_obj, open(tmpf, 'w'))
        confirms = 0
        tries = self.spec.get('confirm_replays', 1)
        last = None
        for _ in range(tries):
            st, w, se = self.replay(binpath, tmpf, env=env)
            last = (st, w)
            if st in ('fail', 'crash'):
                confirms += 1
        if confirms == 0:
            self.notes.append('candidate did not reproduce on replay (%s): %s' % (last, why))
            self.inconclusive += 1
            return
        if kind == 'crash' and not (crash_sig or '').startswith('hang'):
            sig = crash_sig

            def still(c):
                f = os.path.join(self.tmp, 'dd.json')
                json.dump({'case': c}, open(f, 'w'))
                st, w, _ = self.replay(binpath, f, env=env, timeout=60)
                return st == 'crash' and w == sig
            try:
                case_obj = dict(case_obj)
                case_obj['case'] = ddmin_json(case_obj['case'], still, budget_s=90)
            except Exception as ex:  # noqa
                self.notes.append('ddmin failed: %r' % ex)
        path = save_violation(self.prop, case_obj, tag)
        self.violations.append((why or crash_sig, path))

    # -- rapidcheck campaign --------------------------------------------------
    def campaign(self, harness, label, shards, n, size, extra_env=None, mode='gen', timeout=None):
        binpath = build_harness(harness)
        procs = []
        t0 = time.time()
        for i in range(shards):
            s = derive_seed(self.seed, self.prop + label, i)
            env = dict(os.environ)
            env.update(SAN_ENV)
            env['ASAN_OPTIONS'] += LONG_RUN_ASAN
            env['RC_PARAMS'] = 'seed=%d max_success=%d max_size=%d max_discard_ratio=50' % (s, n, size)
            if extra_env:
                env.update(extra_env)
            pre = os.path.join(self.tmp, '%s-%d' % (label, i))
            cmd = [binpath, mode, '--out', pre + '.out', '--fail', pre + '.fail', '--cur', pre + '.cur',
                   '--hashes', pre + '.hashes']
            errf = open(pre + '.stderr', 'w')
            outf = open(pre + '.stdout', 'w')
            p = subprocess.Popen(cmd, env=env, stdout=outf, stderr=errf)
            procs.append((p, pre, errf, outf))
        results = []
        deadline = time.time() + timeout if timeout else None
        for p, pre, errf, outf in procs:
            try:
                rc = p.wait(timeout=max(1, deadline - time.time()) if deadline else None)
            except subprocess.TimeoutExpired:
                p.kill()
                p.wait()
                rc = -999
            errf.close()
            outf.close()
            cleanup_scratch(p.pid)
            results.append((rc, pre))
        agg = dict(evaluations=0, hashes=set(), labels={}, samples=[], discarded=0, shards=shards,
                   wall_s=time.time() - t0, excluded_by_known_finding=0, extra=[])
        env_r = dict(extra_env or {})
        for rc, pre in results:
            if os.path.exists(pre + '.out'):
                try:
                    o = json.load(open(pre + '.out'))
                    agg['evaluations'] += o.get('evaluations', 0)
                    agg['discarded'] += o.get('discarded', 0)
                    agg['excluded_by_known_finding'] += o.get('excluded_by_known_finding', 0)
                    for k, v in o.get('labels', {}).items():
                        agg['labels'][k] = agg['labels'].get(k, 0) + v
                    if len(agg['samples']) < 3:
                        agg['samples'] += o.get('samples', [])[:1]
                    if 'extra' in o:
                        agg['extra'].append(o['extra'])
                except Exception as ex:  # noqa
                    self.notes.append('bad shard output %s: %r' % (pre, ex))
            if os.path.exists(pre + '.hashes'):
                for line in open(pre + '.hashes'):
                    agg['hashes'].add(line.strip())
            se = open(pre + '.stderr', errors='replace').read()
            if rc == 0:
                continue
            if rc == 3 and os.path.exists(pre + '.fail'):
                f = json.load(open(pre + '.fail'))
                self.judge(binpath, f, f.get('why', ''), 'fail', env=env_r)
            elif rc == -999:
                self.inconclusive += 1
                self.notes.append('shard %s hit the watchdog (inconclusive)' % pre)
            elif rc == 2:
                raise InfraError('harness infrastructure error: ' + se[-2000:])
            else:
                sig = crash_signature(se)
                case = None
                if os.path.exists(pre + '.cur'):
                    try:
                        case = json.load(open(pre + '.cur'))
                    except Exception:
                        case = None
                if case is None:
                    raise InfraError('harness died (rc=%s) without a current case: %s' % (rc, se[-3000:]))
                self.judge(binpath, {'property': self.prop, 'why': sig, 'case': case,
                                     'report': se[-6000:]}, sig, 'crash', env=env_r, crash_sig=sig)
        return agg

    # -- enumerated cases with crash/violation resume ------------------------
    def enumerate(self, harness, label, shards, extra_env=None, max_restarts=400, timeout=None):
        import threading
        binpath = build_harness(harness)
        t0 = time.time()
        agg = dict(evaluations=0, hashes=set(), labels={}, samples=[], discarded=0, shards=shards,
                   wall_s=0, excluded_by_known_finding=0, extra=[], total_cases=0, completed=True)
        lock = threading.Lock()
        sigs = getattr(self, 'seen_sigs', None)
        if sigs is None:
            sigs = self.seen_sigs = set()
        pending = []  # (obj, why, kind, sig)
        deadline = time.time() + timeout if timeout else None

        def work(i):
            frm = 0
            for attempt in range(max_restarts):
                if deadline and time.time() > deadline:
                    with lock:
                        agg['completed'] = False
                    return
                env = dict(os.environ)
                env.update(SAN_ENV)
                env['ASAN_OPTIONS'] += LONG_RUN_ASAN
                if extra_env:
                    env.update(extra_env)
                env['VP_SLICE'] = '%d/%d' % (i, shards)
                pre = os.path.join(self.tmp, '%s-%d-%d' % (label, i, attempt))
                cmd = [binpath, 'fixed', '--from', str(frm), '--out', pre + '.out', '--fail', pre + '.fail',
                       '--cur', pre + '.cur', '--hashes', pre + '.hashes']
                with open(pre + '.stderr', 'w') as errf, open(pre + '.stdout', 'w') as outf:
                    pr = subprocess.Popen(cmd, env=env, stdout=outf, stderr=errf)
                    try:
                        rc = pr.wait(timeout=(deadline - time.time() + 5) if deadline else None)
                    except subprocess.TimeoutExpired:
                        pr.kill()
                        pr.wait()
                        rc = -999
                    cleanup_scratch(pr.pid)
                o = None
                if os.path.exists(pre + '.out'):
                    try:
                        o = json.load(open(pre + '.out'))
                    except Exception:
                        o = None
                with lock:
                    if o:
                        agg['evaluations'] += o.get('evaluations', 0)
                        agg['discarded'] += o.get('discarded', 0)
                        agg['total_cases'] = max(agg['total_cases'], o.get('extra', {}).get('total_cases', 0))
                        for k, v in o.get('labels', {}).items():
                            agg['labels'][k] = agg['labels'].get(k, 0) + v
                        if len(agg['samples']) < 3:
                            agg['samples'] += o.get('samples', [])[:1]
                    if os.path.exists(pre + '.hashes'):
                        for line in open(pre + '.hashes'):
                            agg['hashes'].add(line.strip())
                if rc == 0:
                    return
                if rc == -999:
                    with lock:
                        agg['completed'] = False
                    return
                se = open(pre + '.stderr', errors='replace').read()
                if rc == 2:
                    with lock:
                        pending.append((None, 'infra: ' + se[-1500:], 'infra', None))
                    return
                if rc == 3 and os.path.exists(pre + '.fail'):
                    f = json.load(open(pre + '.fail'))
                    why = f.get('why', '')
                    sig = re.sub(r' under faults .*', '', why)
                    sig = re.sub(r'\d+', 'N', sig)[:120]
                    nxt = f.get('case', {}).get('_idx', frm) + 1
                    with lock:
                        if sig not in sigs:
                            sigs.add(sig)
                            pending.append((f, why, 'fail', None))
                    frm = nxt
                    continue
                # crash: the current case tells where we were
                sig = crash_signature(se)
                case = None
                if os.path.exists(pre + '.cur'):
                    try:
                        case = json.load(open(pre + '.cur'))
                    except Exception:
                        case = None
                if case is None:
                    with lock:
                        pending.append((None, 'harness died (rc=%s) before any case: %s' % (rc, se[-1500:]), 'infra', None))
                    return
                with lock:
                    if sig not in sigs:
                        sigs.add(sig)
                        pending.append(({'property': self.prop, 'why': sig, 'case': case, 'report': se[-6000:]},
                                        sig, 'crash', sig))
                    else:
                        agg['labels']['repeat:' + sig] = agg['labels'].get('repeat:' + sig, 0) + 1
                frm = case.get('_idx', frm) + 1
            with lock:
                agg['completed'] = False

        threads = [threading.Thread(target=work, args=(i,)) for i in range(shards)]
        for t in threads:
            t.start()
        for t in threads:
            t.join()
        for obj, why, kind, sig in pending:
            if kind == 'infra':
                raise InfraError(why)
            self.judge(binpath, obj, why, kind, env=extra_env, crash_sig=sig)
        agg['wall_s'] = time.time() - t0
        return agg

    # -- libFuzzer campaign ----------------------------------------------------
    def fuzz(self, harness, label, jobs, runs, corpus_dir, dict_file=None, max_len=4096, extra_env=None,
             timeout=None):
        binpath = build_harness(harness)
        t0 = time.time()
        procs = []
        for i in range(jobs):
            seed = derive_seed(self.seed, self.prop + label, i) % 2147483647 or 1
            work = os.path.join(self.tmp, '%s-%d' % (label, i))
            os.makedirs(work + '/corpus')
            for f in sorted(glob.glob(os.path.join(corpus_dir, '*'))):
                shutil.copy(f, work + '/corpus/')
            env = dict(os.environ)
            env.update(SAN_ENV)
            env['ASAN_OPTIONS'] += LONG_RUN_ASAN
            env['VP_FUZZ_STATS'] = work + '/stats.json'
            if extra_env:
                env.update(extra_env)
            cmd = [binpath, '-runs=%d' % runs, '-seed=%d' % seed, '-max_len=%d' % max_len,
                   '-artifact_prefix=%s/' % work, '-print_final_stats=1', '-timeout=30']
            if dict_file:
                cmd.append('-dict=' + dict_file)
            cmd.append(work + '/corpus')
            errf = open(work + '/stderr', 'w')
            p = subprocess.Popen(cmd, env=env, stdout=errf, stderr=errf, cwd=work)
            procs.append((p, work, errf))
        agg = dict(evaluations=0, hashes=set(), labels={}, samples=[], discarded=0, shards=jobs,
                   excluded_by_known_finding=0, extra=[], distinct=0, parsed=0, accepted=0)
        deadline = time.time() + timeout if timeout else None
        for p, work, errf in procs:
            try:
                rc = p.wait(timeout=max(1, deadline - time.time()) if deadline else None)
            except subprocess.TimeoutExpired:
                p.kill()
                p.wait()
                rc = -999
            errf.close()
            cleanup_scratch(p.pid)
            se = open(work + '/stderr', errors='replace').read()
            m = re.search(r'stat::number_of_executed_units:\s*(\d+)', se)
            if os.path.exists(work + '/stats.json'):
                try:
                    st = json.load(open(work + '/stats.json'))
                    agg['evaluations'] += st.get('execs', 0)
                    agg['distinct'] += st.get('distinct_reached_compiler', 0)
                    agg['parsed'] += st.get('parsed', 0)
                    agg['accepted'] += st.get('accepted', 0)
                    if st.get('sample') and len(agg['samples']) < 3:
                        agg['samples'].append(st['sample'])
                except Exception:
                    pass
            elif m:
                agg['evaluations'] += int(m.group(1))
            arts = [a for a in glob.glob(work + '/crash-*') + glob.glob(work + '/leak-*')]
            if rc == -999:
                self.inconclusive += 1
                self.notes.append('fuzz job %s hit the watchdog (inconclusive)' % work)
                continue
            if rc == 0 and not arts:
                continue
            if not arts:
                # slow-unit / timeout / oom artifacts are load noise, not violations
                self.notes.append('fuzz job ended rc=%s without crash artifact: %s' % (rc, se[-400:]))
                self.inconclusive += 1
                continue
            for a in arts:
                sig = crash_signature(se)
                mo = re.search(r'VP-ORACLE: ([^\n]+)', se)
                if mo:
                    sig = 'oracle: ' + mo.group(1)[:200]
                self.judge_artifact(binpath, a, sig, se, env=extra_env)
        agg['wall_s'] = time.time() - t0
        return agg

    def judge_artifact(self, binpath, artifact, sig, report, env=None):
        nsig = re.sub(r'\d+', 'N', sig)[:160]
        judged = getattr(self, 'judged_sigs', None)
        if judged is None:
            judged = self.judged_sigs = set()
        if nsig in judged:
            return
        judged.add(nsig)
        k = match_known(self.prop, sig, sig)
        if k:
            self.known_hits.setdefault(k['what'], 0)
            self.known_hits[k['what']] += 1
            return
        e = dict(os.environ)
        e.update(SAN_ENV)
        if env:
            e.update(env)
        r = subprocess.run([binpath, artifact], env=e, capture_output=True, text=True, errors='replace')
        if r.returncode == 0:
            self.notes.append('fuzz artifact did not reproduce: ' + sig)
            self.inconclusive += 1
            return
        d = os.path.join(OUTDIR, 'violations')
        os.makedirs(d, exist_ok=True)
        tag = sha(read(artifact))[:10]
        path = os.path.join(d, '%s-%s.fuzz' % (self.prop, tag))
        shutil.copy(artifact, path)
        with open(path + '.report.txt', 'w') as f:
            f.write(report[-8000:])
        self.violations.append((sig, path))

    # -- the real oomd binary on configuration documents -------------------------
    def bincheck(self, docs, label='bin'):
        """docs: list of (name, text). `oomd --check-config` must exit 0 or 1, never die by a signal or a
        sanitizer / terminate report."""
        binpath = build_harness('oomd_bin')
        work = os.path.join(self.tmp, label)
        os.makedirs(work, exist_ok=True)
        env = dict(os.environ)
        env.update(SAN_ENV)
        env['INLINE_LOGGING'] = '1'
        results = dict(n=0, accepted=0, rejected=0)

        def one(item):
            i, (name, text) = item
            f = os.path.join(work, 'doc%d.json' % i)
            with open(f, 'w') as fh:
                fh.write(text)
            r = subprocess.run([binpath, '--check-config', f, '--kmsg-override', os.path.join(work, 'kmsg%d' % (i % 16)),
                                '--cgroup-fs', work],
                               env=env, capture_output=True, text=True, errors='replace', timeout=60)
            return name, text, r.returncode, r.stderr

        with ThreadPoolExecutor(NCPU) as ex:
            outs = list(ex.map(one, enumerate(docs)))
        for name, text, rc, se in outs:
            results['n'] += 1
            if rc == 0:
                results['accepted'] += 1
            elif rc == 1 and 'Sanitizer' not in se and 'terminate called' not in se:
                results['rejected'] += 1
            else:
                sig = 'oomd --check-config: ' + crash_signature(se) + ' (exit %s)' % rc
                nsig = re.sub(r'\d+', 'N', sig)
                judged = getattr(self, 'judged_sigs', None)
                if judged is None:
                    judged = self.judged_sigs = set()
                if nsig in judged:
                    continue
                judged.add(nsig)
                k = match_known(self.prop, sig, sig)
                if k:
                    self.known_hits.setdefault(k['what'], 0)
                    self.known_hits[k['what']] += 1
                    continue
                dd = os.path.join(OUTDIR, 'violations')
                os.makedirs(dd, exist_ok=True)
                path = os.path.join(dd, '%s-%s.cfg' % (self.prop, sha(text)[:10]))
                with open(path, 'w') as fh:
                    fh.write(text)
                with open(path + '.report.txt', 'w') as fh:
                    fh.write(se[-6000:])
                self.violations.append((sig, path))
        return results

    def replay_tier(self, harness, extra_env=None):
        d = os.path.join(VERIF, 'replays', self.prop)
        n_art = 0
        for f in sorted(glob.glob(os.path.join(d, '*.cfg')) + glob.glob(os.path.join(d, '*.fuzz'))):
            n_art += 1
            if cmd_replay(self.prop, f, quiet=True) != 0:
                why = 'saved artifact fails again: ' + os.path.basename(f)
                k = match_known(self.prop, why, why)
                if k:
                    self.known_hits.setdefault(k['what'], 0)
                    self.known_hits[k['what']] += 1
                else:
                    self.violations.append((why, f))
        files = sorted(glob.glob(os.path.join(d, '*.json')))
        if not files:
            return n_art
        binpath = build_harness(harness)
        n = 0
        for f in files:
            obj = json.load(open(f))
            if obj.get('harness', harness) != harness:
                continue
            n += 1
            st, why, se = self.replay(binpath, f, env=extra_env)
            if st == 'ok':
                continue
            if st == 'infra':
                raise InfraError(why)
            sig = why if st == 'crash' else None
            k = match_known(self.prop, why, sig)
            if k:
                self.known_hits.setdefault(k['what'], 0)
                self.known_hits[k['what']] += 1
                continue
            self.violations.append((why, f))
        return n + n_art


class InfraError(Exception):
    pass


def write_evidence(prop, tier, seed, level, coverage, wall, violations, assumptions):
    os.makedirs(os.path.join(OUTDIR, 'evidence'), exist_ok=True)
    ev = dict(property_id=prop, tier=tier, seed=seed, level=level, coverage=coverage,
              assumptions=assumptions, wall_s=round(wall, 2), violations=violations)
    p = os.path.join(OUTDIR, 'evidence', prop + '.json')
    with open(p + '.tmp', 'w') as f:
        json.dump(ev, f, indent=1)
        f.write('\n')
    os.rename(p + '.tmp', p)


def cmd_run(prop, tier, seed):
    from props import run_property
    t0 = time.time()
    r = PropRunner(prop, tier, seed)
    try:
        cov = run_property(r)
    except BuildError as e:
        log('BUILD ERROR\n' + str(e))
        r.cleanup()
        return 2
    except InfraError as e:
        log('INFRASTRUCTURE ERROR: ' + str(e))
        r.cleanup()
        return 2
    wall = time.time() - t0
    spec = PROPS[prop]
    cov.setdefault('rule', spec['rule'])
    cov['notes'] = r.notes
    cov['inconclusive'] = r.inconclusive
    cov['known_findings_reproduced'] = r.known_hits
    write_evidence(prop, tier, seed, spec['level'], cov, wall, len(r.violations), spec.get('assumptions', []))
    for what, n in r.known_hits.items():
        print('KNOWN-FINDING: property=%s %s' % (prop, what))
    r.cleanup()
    if r.violations:
        seen = set()
        for why, path in r.violations:
            if path in seen:
                continue
            seen.add(path)
            log('violation: %s' % why)
            print('VIOLATION property=%s replay=%s' % (prop, path))
        return 1
    print('OK property=%s tier=%s evaluations=%s distinct_nontrivial=%s wall=%.1fs' % (
        prop, tier, cov.get('evaluations'), cov.get('distinct_nontrivial'), wall))
    return 0


def cmd_replay(prop, path, quiet=False):
    spec = PROPS[prop]
    if path.endswith('.fuzz') or path.endswith('.cfg'):
        env = dict(os.environ)
        env.update(SAN_ENV)
        if path.endswith('.fuzz'):
            binpath = build_harness(spec.get('fuzz_harness', spec['harness'] + '_fuzz'))
            r = subprocess.run([binpath, path], env=env, capture_output=quiet)
        else:
            binpath = build_harness('oomd_bin')
            r = subprocess.run([binpath, '--check-config', path, '--kmsg-override', '/dev/null'], env=env,
                               capture_output=quiet)
            return 0 if r.returncode in (0, 1) else 1
        return 0 if r.returncode == 0 else 1
    obj = json.load(open(path))
    harness = obj.get('harness', spec['harness'])
    binpath = build_harness(harness)
    env = dict(os.environ)
    env.update(SAN_ENV)
    env.update(spec.get('env', {}))
    r = subprocess.run([binpath, 'replay', path], env=env)
    return 0 if r.returncode == 0 else 1


def prebuild_flavour(flavour, names):
    """Compiles every translation unit the harnesses of one flavour need in one parallel batch (the objects are
    cached by content, build_harness then only links)."""
    os.makedirs(os.path.join(BUILD, flavour), exist_ok=True)
    lock = open(os.path.join(BUILD, flavour, '.lock'), 'w')
    fcntl.flock(lock, fcntl.LOCK_EX)
    try:
        b = Builder(flavour)
        jobs = {}
        for n in names:
            spec = HARNESSES[n]
            hs = list(spec['srcs']) + (['shim.cpp', 'simworld.cpp', 'plugins.cpp', 'core.cpp'] if spec.get('common', True) else [])
            hs += spec.get('extra', [])
            for s_ in hs:
                jobs[os.path.join(HARNESS, s_)] = b.oomd_hdr + b.harness_hdr
        b.oomd_objs(with_main=any(HARNESSES[n].get('with_main', False) for n in names))
        b.compile_many(sorted(jobs.items()))
    finally:
        fcntl.flock(lock, fcntl.LOCK_UN)
        lock.close()


def cmd_setup():
    names = sorted(HARNESSES.keys())
    ok = True
    byfl = {}
    for n in names:
        byfl.setdefault(HARNESSES[n]['flavour'], []).append(n)
    for fl, ns in sorted(byfl.items()):
        t0 = time.time()
        try:
            prebuild_flavour(fl, ns)
            log('compiled flavour %s in %.1fs' % (fl, time.time() - t0))
        except BuildError as e:
            log('BUILD ERROR (flavour %s)\n%s' % (fl, e))
    for n in names:
        t0 = time.time()
        try:
            build_harness(n)
            log('built %s in %.1fs' % (n, time.time() - t0))
        except BuildError as e:
            log('BUILD ERROR %s\n%s' % (n, e))
            ok = False
    return 0 if ok else 2


def cmd_baseline_off():
    """Repository test-suite with the hook guard OFF, in a scratch build dir."""
    bdir = '/dev/shm/vp-baseline-%d' % os.getpid()
    shutil.rmtree(bdir, ignore_errors=True)
    try:
        r = subprocess.run(['meson', 'setup', bdir, REPO], capture_output=True, text=True)
        if r.returncode != 0:
            log(r.stdout[-3000:] + r.stderr[-3000:])
            return 2
        r = subprocess.run(['meson', 'test', '-C', bdir, '--print-errorlogs'], capture_output=True, text=True)
        print(r.stdout[-6000:])
        return 0 if r.returncode == 0 else 1
    finally:
        shutil.rmtree(bdir, ignore_errors=True)


def main(argv):
    if not argv:
        print(__doc__)
        return 2
    cmd = argv[0]
    seed = int(os.environ.get('VERIF_SEED', '1'))
    if cmd == 'setup':
        return cmd_setup()
    if cmd == 'run':
        prop = argv[1]
        tier = os.environ.get('VERIF_TIER', 'quick')
        if '--tier' in argv:
            tier = argv[argv.index('--tier') + 1]
        return cmd_run(prop, tier, seed)
    if cmd == 'replay':
        return cmd_replay(argv[1], argv[2])
    if cmd == 'bin':
        print(build_harness(argv[1]))
        return 0
    if cmd == 'baseline-off':
        return cmd_baseline_off()
    if cmd == 'mutants':
        from mutants import cmd_mutants
        return cmd_mutants(argv[1:])
    print('unknown command', cmd)
    return 2
