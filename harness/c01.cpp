// C01 Kill containment (DESIGN.md §C01)
#include "killcommon.h"

using namespace vp;
using namespace vpk;

static Json::Value gen() {
  KillOpts o;
  o.prof.glob_names = true;
  Json::Value sc = genKillScenario(o);
  // a cgroup literally named "a*" targeted exactly ("a[*]") and walked recursively, next to a sibling that
  // the name, read as a pattern, would match and that has a child of the same name with more memory
  if (P(10)) {
    WorldGen wg;
    wg.prof = o.prof;
    wg.next_pid = 5000;
    Json::Value cgs(Json::arrayValue);
    for (auto& c : sc["world"]["cgs"])
      if (c["path"].asString().empty()) cgs.append(c);
    auto add = [&](const std::string& path, bool leaf, int64_t mem) {
      Cg c = wg.genCg(path, leaf);
      if (!leaf) c.pids.clear();
      if (mem) c.mem_current = mem;
      c.oom_group = 0;
      c.xattrs.clear();
      cgs.append(c.toJson());
    };
    std::string child = oneOf(std::vector<std::string>{"x", "a", "w-x.slice"});
    add("a*", false, int64_t(1) << 30);
    add("a*/" + child, true, int64_t(1) << 24);
    std::string sib = oneOf(std::vector<std::string>{"a.b", "ab", "a-1"});
    add(sib, false, int64_t(1) << 31);
    add(sib + "/" + child, true, int64_t(1) << 30);
    sc["world"]["cgs"] = cgs;
    for (auto& kv : wg.w.procs) {
      if (kv.second.outcome == "dies") continue;
      Json::Value pj(Json::objectValue);
      pj["o"] = kv.second.outcome;
      if (kv.second.n) pj["n"] = kv.second.n;
      sc["world"]["procs"][std::to_string(kv.first)] = pj;
    }
    Json::Value& rs = sc["config"]["rulesets"][0];
    for (auto& a : rs["actions"])
      if (a["name"].asString().compare(0, 8, "kill_by_") == 0) {
        a["name"] = "kill_by_memory_size_or_growth";
        Json::Value args(Json::objectValue);
        args["cgroup"] = "a[*]";
        args["recursive"] = "true";
        args["post_action_delay"] = "0";
        a["args"] = args;
      }
    for (auto& t : sc["ticks"]) t["ops"] = Json::Value(Json::arrayValue);
    sc["meta"]["glob_named_target"] = true;
  }
  // a prekill hook that takes several ticks: the cgroup oomd selected may be removed and another one
  // created under its path meanwhile - that one was never selected
  if (P(25)) {
    Json::Value h(Json::objectValue);
    h["name"] = "vp_hook";
    h["args"]["id"] = "h0";
    h["args"]["cgroup"] = P(70) ? "/" : "*,*/*,*/*/*";
    sc["config"]["prekill_hooks"].append(h);
    Json::Value polls(Json::arrayValue);
    int n = R(1, 3);
    for (int i = 0; i < n; i++) polls.append(P(20) ? 0 : R(1, 4));
    sc["scripts"]["hooks"]["h0"]["polls"] = polls;
    for (auto& rs : sc["config"]["rulesets"])
      if (P(80)) rs["prekill_hook_timeout"] = std::to_string(R(5, 60));
    sc["meta"]["hook"] = true;
  }
  // kernfs-style 64-bit cgroup identities (generation in the upper half, slot recycled per path)
  if (P(25)) sc["virt_ino"] = true;
  return sc;
}

static Verdict run(const Json::Value& sc) {
  Verdict v;
  RunResult R = runDaemon(sc);
  if (!R.config_ok) {
    v.discard = true;
    v.why = R.config_error;
    return v;
  }
  if (!R.exception.empty()) {
    // an exception leaving the main loop is C10's subject; here it only ends
    // the history early. The invariants are still judged on what happened.
    v.labels.push_back("exception");
  }
  auto invs = segment(R);
  const Json::Value& rulesets = sc["config"]["rulesets"];
  bool sawSignal = false;
  // the cgroup a prekill hook was fired for is the one oomd selected: (ruleset) -> path, inode
  std::map<int, std::pair<std::string, uint64_t>> hookedFor;
  for (auto& inv : invs) {
    if (inv.rs >= (int)rulesets.size() || inv.tick < 0 || inv.tick >= (int)R.worlds.size()) continue;
    const Json::Value& args = killActionOf(rulesets[inv.rs])["args"];
    const World& w = R.worlds[inv.tick];
    bool recursive = args.get("recursive", "false").asString() == "true";
    bool dry = args.get("dry", "false").asString() == "true";
    bool kernelkill = args.get("kernelkill", "false").asString() == "true";
    std::string where = " (tick " + std::to_string(inv.tick) + ", ruleset " + std::to_string(inv.rs) + ")";
    // 1. signals
    for (auto* e : inv.all) {
      if (e->k == "kill") {
        if (e->b != 9) v.fail("signal other than SIGKILL sent: " + std::to_string(e->b) + where);
        if (e->a <= 0) v.fail("kill() called with non-positive pid " + std::to_string(e->a) + where);
      }
    }
    if (dry) {
      for (auto* e : inv.all)
        if (isBoundary(*e)) v.fail("side effect in dry mode: " + e->k + where);
      continue;
    }
    // no boundary event before a victim was announced
    for (auto* e : inv.pre) {
      v.fail("side effect (" + e->k + " " + e->p + ") outside any victim" + where);
    }
    auto targets = vpm::resolveArg(w, args["cgroup"].asString());
    // a fresh chain start selects anew; so does whatever follows a finished kill cycle
    if (inv.pre_ran) hookedFor.erase(inv.rs);
    for (auto* e : inv.all)
      if (e->k == "hook" && e->s == "fire") hookedFor[inv.rs] = {e->p, (uint64_t)e->b};
    for (size_t ai = 0; ai < inv.attempts.size(); ai++) {
      auto& a = inv.attempts[ai];
      {
        auto hf = hookedFor.find(inv.rs);
        if (hf != hookedFor.end() && hf->second.first == a.victim && hf->second.second != 0 && a.victim_ino != hf->second.second) {
          v.fail("victim '" + a.victim + "' is not the cgroup that was selected: the prekill hook was fired for identity " + std::to_string(hf->second.second) + ", the cgroup now under that path is " + std::to_string(a.victim_ino) + where);
          continue;
        }
      }
      const Cg* vc = w.find(a.victim);
      if (!vc) {
        v.fail("victim " + a.victim + " is not a cgroup of this tick" + where);
        continue;
      }
      // 4. the victim is a configured target (or descends from one)
      bool configured = targets.count(a.victim) > 0 || (recursive && vpm::descendsFromAny(w, targets, a.victim));
      if (!configured) {
        v.fail("victim '" + a.victim + "' is not matched by cgroup=" + args["cgroup"].asString() + (recursive ? " (recursive)" : "") + where);
      }
      auto sub = w.subtreePids(a.victim);
      std::set<int> subset(sub.begin(), sub.end());
      for (auto* e : a.evs) {
        if (e->k == "kill") {
          if (e->a > 0 && !subset.count((int)e->a)) {
            v.fail("pid " + std::to_string(e->a) + " signalled but not listed under victim '" + a.victim + "'" + where);
          }
          if (e->ret == 0) sawSignal = true;
        } else if (e->k == "pidfd_open") {
          // pid 0 ('0' lines of cgroup.procs) is refused by the kernel with
          // EINVAL and touches no process: not a containment violation.
          if (e->a > 0 && !subset.count((int)e->a)) {
            v.fail("pidfd_open on pid " + std::to_string(e->a) + " outside victim '" + a.victim + "'" + where);
          }
        } else if (e->k == "setxattr") {
          if (relOf(R.cgroot, e->p) != a.victim) {
            v.fail("xattr " + e->s + " written on '" + relOf(R.cgroot, e->p) + "' while killing '" + a.victim + "'" + where);
          }
        } else if (e->k == "write") {
          std::string dir = dirOfFile(R.cgroot, e->p);
          std::string file = baseOfFile(e->p);
          if (dir != a.victim) {
            v.fail("control file " + file + " of '" + dir + "' written while killing '" + a.victim + "'" + where);
          }
          if (file != "cgroup.kill" && file != "cgroup.freeze") {
            v.fail("unexpected control file write " + file + where);
          }
          if (!kernelkill) {
            v.fail("cgroup.kill/freeze written without kernelkill" + where);
          }
        }
      }
      // 3. stop at the first victim from which a process was signalled
      if (a.signalled() && ai + 1 < inv.attempts.size()) {
        v.fail("kill action went on to '" + inv.attempts[ai + 1].victim + "' after signalling processes of '" + a.victim + "'" + where);
      }
      if (a.signalled()) {
        for (auto& c : w.cgs) {
          if (!c.path.empty() && !w.isDescendantOrSelf(a.victim, c.path) && !w.isDescendantOrSelf(c.path, a.victim) && w.populated(c.path)) {
            v.nontrivial = true;
          }
        }
      }
    }
    if (inv.attempts.size() > 1) v.labels.push_back("fallback");
    if (kernelkill && !inv.attempts.empty()) v.labels.push_back("kernelkill");
    for (auto& a : inv.attempts)
      if (a.sig_ok + a.sig_fail > 20) v.labels.push_back(">20pids");
  }
  if (sawSignal) v.labels.push_back("signal");
  for (auto& t : sc["ticks"])
    for (auto& o : t["ops"]) {
      std::string op = o["op"].asString();
      if (op == "rm") v.labels.push_back("op_rm");
      if (op == "mk") v.labels.push_back("op_mk");
    }
  return v;
}

int main(int argc, char** argv) {
  HarnessDef d;
  d.prop = "C01";
  d.gen = gen;
  d.run = run;
  return harnessMain(argc, argv, d);
}
