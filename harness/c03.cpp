// C03 Victim order: prefer > normal > avoid, oom.group kept whole, fallback on
// failure (DESIGN.md §C03). A validator searches for an execution of the
// documented DFS that explains the observed attempt sequence.
#include "killcommon.h"
#include "rankmodel.h"

using namespace vp;
using namespace vpk;
using namespace vpr;

namespace {

Json::Value gen() {
  KillOpts o;
  o.dry_pct = 0;
  o.two_rulesets_pct = 0;
  o.ops_pct = 0;
  o.fire_pct = 100;
  o.recursive_pct = 70;
  o.kernelkill_pct = 10;
  o.always_continue_pct = 10;
  o.min_ticks = 1;
  o.max_ticks = 1;
  o.prof.unkillable_pct = 35;
  o.prof.maxlog2 = 34;
  o.allow_root = false;
  WorldGen wg;
  wg.prof = o.prof;
  World w0 = wg.build(P(60) ? 4 : 3, 14);
  // ties in the metrics
  std::vector<std::string> paths;
  for (auto& c : w0.cgs)
    if (!c.path.empty()) paths.push_back(c.path);
  for (auto& c : w0.cgs) {
    if (c.path.empty() || !P(20)) continue;
    const Cg* o2 = w0.find(oneOf(paths));
    c.mem_current = o2->mem_current;
    c.swap_current = o2->swap_current;
    c.mem_psi = o2->mem_psi;
    c.io_psi = o2->io_psi;
  }
  Json::Value sc(Json::objectValue);
  Json::Value ka = genKillAction(w0, o, "false");
  std::string plugin = ka["name"].asString();
  ka["args"]["post_action_delay"] = "0";
  if (plugin == "kill_by_memory_size_or_growth") {
    // integral ratio: the fractional parse is C09's subject
    if (ka["args"].isMember("min_growth_ratio")) ka["args"]["min_growth_ratio"] = std::to_string(R(0, 3));
  }
  if (plugin == "kill_by_swap_usage" && ka["args"].isMember("threshold")) {
    int mb = R(0, 64);
    ka["args"]["threshold"] = std::to_string(mb) + "M";
    sc["meta"]["threshold_bytes"] = (Json::Int64)(int64_t(mb) << 20);
  }
  Json::Value cfg(Json::objectValue);
  cfg["rulesets"].append(rulesetJson(0, ka, 0));
  // the same kernelkill action once more in a second ruleset: it runs in the same tick after the first
  // has emptied its victim, with whatever the context still remembers of that cgroup
  bool twin = ka["args"].get("kernelkill", "false").asString() == "true" && P(60);
  if (twin) cfg["rulesets"].append(rulesetJson(1, ka, 0));
  sc["config"] = cfg;
  sc["interval"] = 5;
  sc["devs"]["8:0"] = "ssd";
  sc["world"] = w0.toJson();
  bool rate = plugin == "kill_by_pg_scan" || plugin == "kill_by_io_cost";
  // earlier ticks may fire as well: what the kill walk read then (oom.group,
  // prefer / avoid marks, populated) must be read again at the judged tick
  bool warm = P(35);
  int nticks = rate ? R(2, 3) + (warm ? 1 : 0) : R(1, 2) + (warm ? 1 : 0);
  World view = w0;
  Json::Value ticks(Json::arrayValue), scripts(Json::objectValue);
  for (int t = 0; t < nticks; t++) {
    Json::Value tick(Json::objectValue);
    tick["adv_ms"] = 5000;
    Json::Value ops(Json::arrayValue);
    if (t > 0) {
      for (auto& p : paths) {
        if (!P(60)) continue;
        Cg* c = view.find(p);
        for (auto& kv : c->stat)
          if (kv.first == "pgscan") kv.second += P(25) ? 0 : R64(0, 1000000);
        if (!c->io_stat.empty()) {
          c->io_stat[0].rbytes += R64(0, 1 << 28);
          c->io_stat[0].wios += R64(0, 10000);
        }
        if (P(40)) c->mem_current = pages(o.prof.maxlog2);
        if (warm && P(25)) c->oom_group = c->oom_group ? 0 : 1;
        if (warm && P(20)) {
          bool had = false;
          for (const char* n : {"trusted.oomd_prefer", "trusted.oomd_avoid", "user.oomd_prefer", "user.oomd_avoid"}) had = c->xattrs.erase(n) || had;
          if (!had || P(50)) c->xattrs[vpgen::oneOf(std::vector<std::string>{"trusted.oomd_prefer", "trusted.oomd_avoid", "user.oomd_prefer", "user.oomd_avoid"})] = "1";
        }
        Op op;
        op.op = "set";
        op.cg = *c;
        op.cg.pids.clear();
        ops.append(op.toJson());
      }
    }
    tick["ops"] = ops;
    ticks.append(tick);
    bool fire = t == nticks - 1 || (plugin == "kill_by_pg_scan" && t == nticks - 2) || (warm && P(70));
    scripts["detectors"]["d0"].append(fire ? "C" : "S");
    if (twin) scripts["detectors"]["d1"].append(fire ? "C" : "S");
  }
  sc["meta"]["kill_tick"] = nticks - 1;
  // a prekill hook that takes a tick or two per victim: the walk is spread over several ticks (the
  // detector stays silent afterwards, the suspended chain resumes by itself) and must still be one walk
  // in rank order
  // (only for the plugins whose metric does not depend on the tick: a walk resumed later ranks the
  // groups it descends into with that later tick's rates and averages)
  if ((plugin == "kill_by_swap_usage" || plugin == "kill_by_pressure") && P(60)) {
    Json::Value h(Json::objectValue);
    h["name"] = "vp_hook";
    h["args"]["id"] = "h0";
    h["args"]["cgroup"] = P(70) ? "/" : "*,*/*,*/*/*";
    cfg["prekill_hooks"].append(h);
    cfg["rulesets"][0]["prekill_hook_timeout"] = "600";
    if (twin) cfg["rulesets"][1]["prekill_hook_timeout"] = "600";
    sc["config"] = cfg;
    Json::Value polls(Json::arrayValue);
    int n = R(1, 3);
    for (int i = 0; i < n; i++) polls.append(P(25) ? 0 : R(1, 2));
    scripts["hooks"]["h0"]["polls"] = polls;
    // one walk only: no kill cycle may be under way when the judged tick begins
    for (int t = 0; t < nticks - 1; t++) {
      bool sampling = plugin == "kill_by_pg_scan" && t == nticks - 2;
      if (!sampling) {
        scripts["detectors"]["d0"][t] = "S";
        if (twin) scripts["detectors"]["d1"][t] = "S";
      }
    }
    for (int k = 0; k < 24; k++) {
      Json::Value tick(Json::objectValue);
      tick["adv_ms"] = 5000;
      tick["ops"] = Json::Value(Json::arrayValue);
      ticks.append(tick);
      scripts["detectors"]["d0"].append("S");
      if (twin) scripts["detectors"]["d1"].append("S");
    }
    sc["meta"]["hook"] = true;
  }
  sc["ticks"] = ticks;
  sc["scripts"] = scripts;
  // kernfs-style 64-bit cgroup identities (generation in the upper half, slot recycled per path)
  if (P(25)) sc["virt_ino"] = true;
  return sc;
}

struct Group {
  std::vector<std::string> peers;
  std::vector<std::string> remaining;
};

struct Validator {
  const World* w;
  // The walk may span ticks (it is suspended on a prekill hook before every attempt) and another ruleset
  // may have emptied a cgroup in between: whether a candidate is skipped as unpopulated is decided in the
  // tick of the attempt before it (the start of the walk for the first).
  const std::vector<World>* worlds{nullptr};
  int startTick{0};
  bool populatedAt(const std::string& c, size_t oi) const {
    int t = startTick;
    if (oi > 0 && oi - 1 < obs.size() && !obs[oi - 1].evs.empty()) t = obs[oi - 1].evs.front()->tick;
    if (worlds && t >= 0 && t < (int)worlds->size()) return (*worlds)[t].populated(c);
    return w->populated(c);
  }
  RankInput in;
  bool recursive{false};
  std::vector<Attempt> obs;
  bool sawUncertain{false};
  bool usedBacktrack{false};
  long steps{0};

  std::map<std::string, Key> keysFor(const std::vector<std::string>& peers) {
    auto k = keysOf(in, peers);
    for (auto& kv : k)
      if (kv.second.uncertain) sawUncertain = true;
    return k;
  }
  Group makeGroup(const std::vector<std::string>& peers) {
    Group g;
    g.peers = peers;
    auto k = keysFor(peers);
    for (auto& p : peers)
      if (k[p].eligible) g.remaining.push_back(p);
    return g;
  }
  // the run ended while the walk was still suspended on a hook: what was observed is a prefix
  bool truncated{false};
  bool explain(std::vector<Group> stack, size_t oi) {
    if (++steps > 200000) return true; // search budget: inconclusive, never an alarm
    if (truncated && oi == obs.size()) return true;
    while (!stack.empty() && stack.back().remaining.empty()) stack.pop_back();
    if (stack.empty()) return oi == obs.size();
    Group& g = stack.back();
    auto keys = keysFor(g.peers);
    auto acc = acceptableFirst(keys, g.remaining);
    for (auto& c : acc) {
      std::vector<Group> st = stack;
      auto& rem = st.back().remaining;
      rem.erase(std::find(rem.begin(), rem.end(), c));
      const Cg* cg = w->find(c);
      bool mayRecurse = recursive && cg->oom_group != 1;
      auto kids = w->children(c);
      if (mayRecurse && !kids.empty()) {
        std::vector<std::string> names;
        for (auto* k : kids) names.push_back(k->path);
        st.push_back(makeGroup(names));
        if (explain(st, oi)) return true;
        continue;
      }
      bool populated = c.empty() ? true : populatedAt(c, oi);
      if (!populated) {
        if (explain(st, oi)) return true;
        continue;
      }
      if (oi < obs.size() && obs[oi].victim == c) {
        if (obs[oi].signalled()) {
          if (oi == obs.size() - 1) return true; // stops at the first success
          continue;
        }
        if (explain(st, oi + 1)) return true;
      }
    }
    return false;
  }
};

Verdict run(const Json::Value& sc) {
  Verdict v;
  RunResult R = runDaemon(sc);
  if (!R.config_ok) {
    v.discard = true;
    return v;
  }
  if (!R.exception.empty()) {
    v.labels.push_back("exception");
    return v;
  }
  const Json::Value& ka = killActionOf(sc["config"]["rulesets"][0]);
  const Json::Value& args = ka["args"];
  int nticks = sc["ticks"].size();
  int killTick = sc["meta"].get("kill_tick", nticks - 1).asInt();
  Validator val;
  val.recursive = args.get("recursive", "false").asString() == "true";
  RankInput& in = val.in;
  in.spec.name = ka["name"].asString();
  if (args.isMember("size_threshold")) in.spec.size_threshold = atoi(args["size_threshold"].asCString());
  if (args.isMember("growing_size_percentile")) in.spec.growing_size_percentile = atoi(args["growing_size_percentile"].asCString());
  if (args.isMember("min_growth_ratio")) in.spec.min_growth_ratio = strtold(args["min_growth_ratio"].asCString(), nullptr);
  if (sc["meta"].isMember("threshold_bytes")) in.spec.swap_threshold = sc["meta"]["threshold_bytes"].asInt64();
  in.spec.biased = args.get("biased_swap_kill", "false").asString() == "true";
  in.spec.resource = args.get("resource", "memory").asString();
  const World& w0 = R.worlds[0];
  {
    long double st = (long double)w0.host.mem("SwapTotal") * 1024, mt = (long double)w0.host.mem("MemTotal") * 1024;
    in.spec.swap_ratio = mt > 0 ? (long double)(float)(st / mt) : 0;
  }
  vps::DevCfg dev;
  dev.devs["8:0"] = "ssd";
  // History is kept only for cgroups the plugin looked at in the previous tick:
  // its targets and, with recursive targeting, what lies below them down to
  // (and including) the first cgroup with memory.oom.group=1 - the walk of
  // prerunOnCgroups, of which the kill walk is a subset. A cgroup that was
  // outside that set at tick t-1 has no previous sample at tick t.
  auto trackedAt = [&](int t) {
    std::set<std::string> out;
    const World& w = R.worlds[t];
    auto tg = vpm::resolveArg(w, args["cgroup"].asString());
    std::vector<std::string> st(tg.begin(), tg.end());
    while (!st.empty()) {
      std::string p = st.back();
      st.pop_back();
      const Cg* c = w.find(p);
      if (!c || !out.insert(p).second) continue;
      if (val.recursive && c->oom_group != 1)
        for (auto* ch : w.children(p)) st.push_back(ch->path);
    }
    return out;
  };
  std::map<std::string, Temporal> temp;
  std::set<std::string> prevTracked;
  for (int t = 0; t <= killTick; t++) {
    const World& w = R.worlds[t];
    std::set<std::string> tracked = trackedAt(t);
    for (auto& c : w.cgs) {
      Temporal& tm = temp[c.path];
      bool now = tracked.count(c.path) || t == killTick; // the judged tick computes on demand
      bool before = t > 0 && prevTracked.count(c.path);
      if (!now) {
        tm = Temporal();
        continue;
      }
      int64_t cur = c.path.empty() ? (w.host.mem("MemTotal") - w.host.mem("MemFree")) * 1024 : c.mem_current;
      long double prev = (before && tm.have_avg) ? std::floor(tm.avg) : 0;
      tm.avg = prev * 0.75L + (long double)cur / 4.0L;
      tm.have_avg = true;
      long double cost = 0;
      for (auto& d : c.io_stat) {
        if (d.major != 8 || d.minor != 0) continue;
        cost += (long double)d.rios * dev.ssd[0] + (long double)d.rbytes * dev.ssd[1] + (long double)d.wios * dev.ssd[2] + (long double)d.wbytes * dev.ssd[3] + (long double)d.dios * dev.ssd[4] + (long double)d.dbytes * dev.ssd[5];
      }
      tm.have_prev_io = before;
      tm.prev_io = tm.cur_io;
      tm.cur_io = cost;
      tm.have_prev_pgscan = false;
      if (t == killTick && before) {
        tm.have_prev_pgscan = true;
        tm.prev_pgscan = R.worlds[t - 1].find(c.path)->statv("pgscan", 0);
      }
    }
    prevTracked = tracked;
  }
  // unpopulated cgroups are skipped: cgroup.kill is never written to a cgroup without a process
  for (auto& e : R.trace)
    if (e.k == "write" && e.ret >= 0 && e.b == 0 && e.p.size() > 12 && e.p.compare(e.p.size() - 12, 12, "/cgroup.kill") == 0) {
      v.fail("cgroup.kill of '" + relOf(R.cgroot, e.p.substr(0, e.p.size() - 12)) + "' written at tick " + std::to_string(e.tick) + " although the cgroup holds no process any more (unpopulated cgroups are skipped)");
      return v;
    }
  const World& w = R.worlds[killTick];
  val.w = &w;
  val.worlds = &R.worlds;
  val.startTick = killTick;
  in.w = &w;
  in.rootCurrent = (w.host.mem("MemTotal") - w.host.mem("MemFree")) * 1024;
  in.temporal = temp;
  const Invocation* inv = nullptr;
  auto invs = segment(R);
  Invocation merged;
  bool chainWentOn = false;
  for (auto& i : invs) {
    if (i.rs != 0 || i.tick < killTick) continue;
    if (i.after_ran) chainWentOn = true;
    if (!inv) {
      merged = i;
      inv = &merged;
    } else {
      // the same walk, resumed after a prekill hook
      for (auto& a : i.attempts) merged.attempts.push_back(a);
    }
  }
  if (!inv) {
    v.discard = true;
    return v;
  }
  val.obs = inv->attempts;
  // a walk that neither killed anything nor handed over to the next action by the end of the run is
  // still suspended on its hook (many failing victims, a tick or two each)
  if (sc["meta"].get("hook", false).asBool() && !chainWentOn && (val.obs.empty() || !val.obs.back().signalled())) {
    val.truncated = true;
    v.labels.push_back("walk_cut_by_end_of_run");
  }
  // the victim is killed as a unit: every process listed in its subtree at the start of the tick is
  // signalled by an attempt that signalled anything (user-space kills; cgroup.kill is the kernel's job)
  if (args.get("kernelkill", "false").asString() != "true") {
    for (auto& a : inv->attempts) {
      if (a.sig_ok == 0) continue;
      std::set<int> called;
      for (auto* e : a.evs)
        if (e->k == "kill") called.insert((int)e->a);
      for (int pid : w.subtreePids(a.victim))
        if (!called.count(pid)) {
          v.fail("process " + std::to_string(pid) + " of the subtree of victim '" + a.victim + "' was never signalled although the victim was killed (the subtree is killed as a unit)");
          return v;
        }
      if (vpm::splitPath(a.victim).size() + 2 <= 4 && !w.children(a.victim).empty()) v.labels.push_back("non_leaf_victim");
    }
  }
  auto targets = vpm::resolveArg(w, args["cgroup"].asString());
  std::vector<std::string> init(targets.begin(), targets.end());
  // root as a ranked sibling: its statistics come from host files the model of
  // which (MemTotal-MemFree, /proc/pressure) differs per plugin; not generated
  std::vector<Group> stack;
  stack.push_back(val.makeGroup(init));
  bool ok = val.explain(stack, 0);
  if (val.sawUncertain) {
    v.labels.push_back("uncertain_phase");
    return v;
  }
  if (val.steps > 200000) {
    v.labels.push_back("search_budget");
    return v;
  }
  if (!ok) {
    std::string seq;
    for (auto& a : val.obs) seq += "'" + a.victim + "'" + (a.signalled() ? "(killed) " : "(nothing signalled) ");
    v.fail(in.spec.name + (val.recursive ? " recursive" : "") + " cgroup=" + args["cgroup"].asString() + ": attempt sequence " + (seq.empty() ? "<none>" : seq) + "cannot be produced by the documented victim order");
    return v;
  }
  bool prefer = false, avoid = false;
  for (auto& c : w.cgs) {
    int p = prefOf(c);
    if (p > 0) prefer = true;
    if (p < 0) avoid = true;
  }
  size_t n = val.obs.size();
  if (n >= 2 && val.obs[n - 1].signalled()) {
    v.nontrivial = true;
    v.labels.push_back("fallback_success");
  }
  if (n >= 1 && prefer && avoid) v.nontrivial = true;
  if (n == 0) v.labels.push_back("no_attempt");
  if (val.recursive) v.labels.push_back("recursive");
  if (sc["meta"].get("hook", false).asBool()) v.labels.push_back(n >= 2 ? "walk_across_hook_waits" : "prekill_hook");
  return v;
}

} // namespace

int main(int argc, char** argv) {
  HarnessDef d;
  d.prop = "C03";
  d.gen = gen;
  d.run = run;
  return harnessMain(argc, argv, d);
}
