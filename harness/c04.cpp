// C04 Dry-run has no side effects but the same decision and control flow
// (DESIGN.md §C04): differential dry vs wet run of the identical scenario.
#include "killcommon.h"

using namespace vp;
using namespace vpk;

static Json::Value gen() {
  KillOpts o;
  o.dry_pct = 0;
  o.two_rulesets_pct = 25;
  o.min_ticks = 2;
  o.fire_pct = 85;
  o.ops_pct = 25;
  Json::Value sc = genKillScenario(o);
  for (auto& rs : sc["config"]["rulesets"]) {
    if (P(20)) {
      // systemd_restart in place of the kill plugin
      Json::Value a(Json::objectValue);
      a["name"] = "systemd_restart";
      a["args"]["service"] = "foo.service";
      if (P(60)) a["args"]["post_action_delay"] = std::to_string(R(0, 10));
      Json::Value acts(Json::arrayValue);
      for (auto& x : rs["actions"]) {
        std::string n = x["name"].asString();
        acts.append(n.compare(0, 8, "kill_by_") == 0 ? a : x);
      }
      rs["actions"] = acts;
      // the restart action in a ruleset with a ruleset-level cgroup: one instance (and one copy of the
      // action, with its arguments) per matching cgroup
      if (P(40)) {
        rs["cgroup"] = P(50) ? "*" : "*/*";
        sc["meta"]["percg"] = true;
      }
    }
  }
  // a prekill hook that matches everything and needs a few polls: the dry run
  // has to wait for it exactly as the wet run does (control flow)
  if (P(30)) {
    Json::Value h(Json::objectValue);
    h["name"] = "vp_hook";
    h["args"]["id"] = "h0";
    h["args"]["cgroup"] = P(70) ? "/" : "*,*/*,*/*/*";
    sc["config"]["prekill_hooks"].append(h);
    Json::Value polls(Json::arrayValue);
    int n = R(1, 3);
    for (int i = 0; i < n; i++) polls.append(P(20) ? 0 : (P(85) ? R(1, 4) : -1));
    sc["scripts"]["hooks"]["h0"]["polls"] = polls;
    for (auto& rs : sc["config"]["rulesets"])
      if (P(70)) rs["prekill_hook_timeout"] = std::to_string(R(0, 12));
    sc["meta"]["hook"] = true;
  }
  return sc;
}

static Json::Value withDry(const Json::Value& sc, bool dry) {
  Json::Value c = sc;
  for (auto& rs : c["config"]["rulesets"])
    for (auto& a : rs["actions"]) {
      std::string n = a["name"].asString();
      if (n.compare(0, 8, "kill_by_") == 0 || n == "systemd_restart") a["args"]["dry"] = dry ? "true" : "false";
    }
  return c;
}

// victim named by an "oomd kill" kmsg record: "<p10> <p60> <p300> <cgroup> <usage> ruleset:[...]"
static bool parseKillLine(const std::string& l, std::string* victim, bool* dry) {
  if (l.compare(0, 10, "oomd kill:") != 0) return false;
  *dry = l.find("(dry)") != std::string::npos;
  auto pos = l.find(" ruleset:[");
  if (pos == std::string::npos) {
    *victim = "?service";
    return true;
  }
  std::string head = l.substr(11, pos - 11); // after "oomd kill: "
  // p10 p60 p300 then the path (may be empty for root) then usage
  std::vector<std::string> tok;
  size_t s = 0;
  int n = 0;
  while (n < 3) {
    auto e = head.find(' ', s);
    if (e == std::string::npos) return false;
    s = e + 1;
    n++;
  }
  auto last = head.rfind(' ');
  if (last == std::string::npos || last < s) {
    *victim = "";
    return true;
  }
  *victim = head.substr(s, last - s);
  return true;
}

static Verdict run(const Json::Value& sc) {
  Verdict v;
  RunResult D = runDaemon(withDry(sc, true));
  if (!D.config_ok) {
    v.discard = true;
    return v;
  }
  auto dinv = segment(D);
  std::map<std::string, int> dstats = D.stats_after;
  RunResult W = runDaemon(withDry(sc, false));
  auto winv = segment(W);
  if (!D.exception.empty() || !W.exception.empty()) v.labels.push_back("exception");
  if (sc["meta"].get("hook", false).asBool()) v.labels.push_back("prekill_hook");
  // 1. no side effect at all in the dry run
  for (auto& e : D.trace) {
    if (isBoundary(e)) {
      v.fail("dry run performed " + e.k + " " + e.s + " " + e.p + " (tick " + std::to_string(e.tick) + ")");
      break;
    }
  }
  for (auto& kv : dstats) {
    if ((kv.first == "oomd.kills" || kv.first == "oomd.restarts") && kv.second != 0) {
      v.fail("dry run raised " + kv.first + " to " + std::to_string(kv.second));
    }
  }
  if (!v.ok) return v;
  // systemd_restart pauses by blocking for its post_action_delay before it answers STOP: when nothing but
  // restart actions is configured, dry and wet runs take exactly the same (virtual) time
  {
    bool onlyRestart = true;
    for (auto& rs : sc["config"]["rulesets"])
      if (killActionOf(rs)["name"].asString() != "systemd_restart") onlyRestart = false;
    if (onlyRestart && !sc["meta"].get("percg", false).asBool()) {
      for (size_t t = 0; t < D.tick_ms.size() && t < W.tick_ms.size(); t++)
        if (D.tick_ms[t] != W.tick_ms[t]) {
          v.fail("tick " + std::to_string(t) + " starts at " + std::to_string(D.tick_ms[t]) + " ms in the dry run and at " + std::to_string(W.tick_ms[t]) + " ms in the wet run: the restart action did not hold its ruleset for the same time");
          return v;
        }
      v.labels.push_back("restart_only_timing_compared");
    }
  }
  if (sc["meta"].get("percg", false).asBool()) {
    // several instances per ruleset and tick: only the absence of side effects is judged
    v.labels.push_back("restart_under_ruleset_cgroup");
    v.nontrivial = true;
    return v;
  }
  // 2. first decision
  auto key = [](const Invocation& i) { return std::make_pair(i.tick, i.rs); };
  const Invocation* wfirst = nullptr;
  for (auto& i : winv) {
    bool acted = !i.attempts.empty();
    for (auto* e : i.all)
      if (e->k == "sdbus" && e->s == "RestartUnit") acted = true;
    if (acted) {
      wfirst = &i;
      break;
    }
  }
  const Invocation* dfirst = nullptr;
  std::string dvictim;
  for (auto& i : dinv) {
    for (auto& l : i.kmsg) {
      bool isdry = false;
      std::string vic;
      if (parseKillLine(l, &vic, &isdry)) {
        if (!isdry) v.fail("dry run wrote a kill record not marked (dry): " + l);
        if (!dfirst) {
          dfirst = &i;
          dvictim = vic;
        }
      }
    }
    if (dfirst) break;
  }
  if (!v.ok) return v;
  if (!wfirst && !dfirst) return v; // nothing was ever selected: trivial
  if (wfirst && (!dfirst || key(*dfirst) > key(*wfirst))) {
    v.fail("wet run attempted a kill at tick " + std::to_string(wfirst->tick) + " (ruleset " + std::to_string(wfirst->rs) + ") but the dry run selected nothing there");
    return v;
  }
  if (dfirst && (!wfirst || key(*wfirst) > key(*dfirst))) {
    v.fail("dry run selected '" + dvictim + "' at tick " + std::to_string(dfirst->tick) + " but the wet run attempted nothing there");
    return v;
  }
  const Json::Value& ka = killActionOf(sc["config"]["rulesets"][wfirst->rs]);
  bool always = ka["args"].get("always_continue", "false").asString() == "true";
  bool systemd = ka["name"].asString() == "systemd_restart";
  if (!systemd) {
    std::string wvictim = wfirst->attempts[0].victim;
    if (wvictim != dvictim) {
      v.fail("dry run picked '" + dvictim + "', the wet run attempts '" + wvictim + "' first (tick " + std::to_string(wfirst->tick) + ")");
      return v;
    }
  }
  // 3. control flow: STOP unless always_continue
  if (dfirst->after_ran != always) {
    v.fail(std::string("dry run: next action ") + (dfirst->after_ran ? "ran" : "did not run") + " after the dry kill" + (always ? " (always_continue)" : ""));
    return v;
  }
  bool wetFirstSucceeded = systemd ? true : wfirst->attempts[0].signalled();
  if (wetFirstSucceeded) {
    v.nontrivial = true;
    if (wfirst->after_ran != dfirst->after_ran) v.fail("wet and dry run differ in whether the next action ran");
    // next chain start of that ruleset
    auto nextStart = [&](const std::vector<Invocation>& invs, const Invocation* from) {
      for (auto& i : invs)
        if (i.rs == from->rs && i.tick > from->tick && i.pre_ran) return i.tick;
      return -1;
    };
    int nw = nextStart(winv, wfirst), nd = nextStart(dinv, dfirst);
    // the kill retry loop sleeps (virtual) seconds only in the wet run; this
    // shifts every later tick against other rulesets' pauses, so the tick
    // numbers are only comparable when both runs slept equally
    long ws = 0, ds = 0;
    for (auto& e : W.trace)
      if (e.k == "sleep") ws += e.a;
    for (auto& e : D.trace)
      if (e.k == "sleep") ds += e.a;
    if (ws != ds) {
      v.labels.push_back("next_start_not_comparable");
    } else if (nw != nd) {
      v.fail("after the kill at tick " + std::to_string(wfirst->tick) + " the wet run restarts the chain at tick " + std::to_string(nw) + ", the dry run at tick " + std::to_string(nd));
    }
    if (nw >= 0 && ws == ds) v.labels.push_back("next_start_compared");
  }
  if (systemd) v.labels.push_back("systemd_restart");
  return v;
}

int main(int argc, char** argv) {
  HarnessDef d;
  d.prop = "C04";
  d.gen = gen;
  d.run = run;
  return harnessMain(argc, argv, d);
}
