// C05 (daemon-mode sub-campaign): real kill plugins with their own
// post_action_delay, behind slow prekill hooks, detector firing on every tick.
// After a STOP at virtual time t no chain of the ruleset may start before t+d
// and one must start at the first tick >= t+d (d = the plugin's delay if it
// gives one, else the ruleset's, else 15).
#include "killcommon.h"

using namespace vp;
using namespace vpk;

static Json::Value gen() {
  KillOpts o;
  o.dry_pct = 10;
  o.two_rulesets_pct = 0;
  o.ops_pct = 0;
  o.fire_pct = 100;
  o.always_continue_pct = 10;
  o.kernelkill_pct = 10;
  o.prof.unkillable_pct = 25;
  o.prof.max_pids = 8;
  o.prof.maxlog2 = 34;
  o.allow_root = false;
  WorldGen wg;
  wg.prof = o.prof;
  World w0 = wg.build(3, R(3, 9));
  Json::Value sc(Json::objectValue);
  Json::Value ka = genKillAction(w0, o);
  ka["args"].removeMember("post_action_delay");
  int da = P(65) ? R(0, 20) : -1;
  if (da >= 0) ka["args"]["post_action_delay"] = std::to_string(da);
  int dr = P(60) ? R(0, 20) : -1;
  Json::Value rs = rulesetJson(0, ka, dr);
  if (P(70)) rs["prekill_hook_timeout"] = std::to_string(R(0, 8));
  Json::Value cfg(Json::objectValue);
  cfg["rulesets"].append(rs);
  Json::Value scripts(Json::objectValue);
  if (P(60)) {
    Json::Value h(Json::objectValue);
    h["name"] = "vp_hook";
    h["args"]["id"] = "h0";
    h["args"]["cgroup"] = "/";
    cfg["prekill_hooks"].append(h);
    Json::Value polls(Json::arrayValue);
    int n = R(1, 4);
    for (int i = 0; i < n; i++) polls.append(P(25) ? 0 : R(1, 4));
    scripts["hooks"]["h0"]["polls"] = polls;
  }
  sc["config"] = cfg;
  sc["interval"] = 5;
  sc["devs"]["8:0"] = "ssd";
  sc["world"] = w0.toJson();
  sc["meta"]["d_action"] = da;
  sc["meta"]["d_ruleset"] = dr;
  int nticks = R(4, 14);
  World view = w0;
  Json::Value ticks(Json::arrayValue);
  for (int t = 0; t < nticks; t++) {
    Json::Value tick(Json::objectValue);
    int k = W({50, 40, 10});
    tick["adv_ms"] = (k == 0 ? R(1, 5) : k == 1 ? R(0, 12) : R(12, 40)) * 1000 + subsecMs();
    Json::Value ops(Json::arrayValue);
    if (t > 0) {
      for (auto& c : view.cgs) {
        if (c.path.empty()) continue;
        for (auto& kv : c.stat)
          if (kv.first == "pgscan") kv.second += R64(1, 100000);
        if (!c.io_stat.empty()) c.io_stat[0].rbytes += R64(1, 1 << 24);
        Op op;
        op.op = "set";
        op.cg = c;
        op.cg.pids.clear();
        // keep the cgroups populated so that later chains have victims
        if (P(40)) op.cg.pids.push_back(wg.next_pid++);
        ops.append(op.toJson());
      }
    }
    tick["ops"] = ops;
    ticks.append(tick);
    scripts["detectors"]["d0"].append("C");
    // the action after the kill plugin sometimes stops the chain itself
    {
      Json::Value a(Json::objectValue);
      bool stop = P(35);
      a["r"] = stop ? "S" : "C";
      if (stop && P(50)) a["pause"] = R(0, 20);
      scripts["actions"]["after0"].append(a);
    }
  }
  sc["ticks"] = ticks;
  sc["scripts"] = scripts;
  return sc;
}

static Verdict run(const Json::Value& sc) {
  Verdict v;
  RunResult R = runDaemon(sc);
  if (!R.config_ok) {
    v.discard = true;
    return v;
  }
  if (!R.exception.empty()) {
    v.labels.push_back("exception");
    return v;
  }
  const Json::Value& ka = killActionOf(sc["config"]["rulesets"][0]);
  bool always = ka["args"].get("always_continue", "false").asString() == "true";
  bool dry = ka["args"].get("dry", "false").asString() == "true";
  int da = sc["meta"]["d_action"].asInt(), dr = sc["meta"]["d_ruleset"].asInt();
  int64_t d = (da >= 0 ? da : dr >= 0 ? dr : 15) * 1000LL;
  auto invs = segment(R);
  int nticks = sc["ticks"].size();
  // per tick: did a chain start (pre0 ran)? did the chain end this tick, with
  // or without a STOP, when, and with which delay?
  std::vector<bool> started(nticks, false), endedNoStop(nticks, false);
  std::vector<int64_t> stopAt(nticks, -1), stopDelay(nticks, 0);
  std::vector<int64_t> afterAt(nticks, -1);
  for (auto& e : R.trace)
    if (e.k == "plugin" && e.s == "run" && e.s2 == "after0" && e.tick >= 0 && e.tick < nticks) afterAt[e.tick] = e.t_ms;
  int64_t dRuleset = (dr >= 0 ? dr : 15) * 1000LL;
  for (auto& inv : invs) {
    if (inv.tick < 0 || inv.tick >= nticks) continue;
    if (inv.pre_ran) started[inv.tick] = true;
    bool killed = false;
    for (auto& a : inv.attempts)
      if (a.signalled()) killed = true;
    if (dry)
      for (auto& l : inv.kmsg)
        if (l.find("(dry)") != std::string::npos) killed = true;
    if (killed && !always && !inv.after_ran) {
      int64_t t = R.tick_ms[inv.tick];
      for (auto* e : inv.all) t = std::max(t, e->t_ms);
      stopAt[inv.tick] = t;
      stopDelay[inv.tick] = d;
    } else if (inv.after_ran) {
      // the chain reached the scripted action: it decides
      const Json::Value& sa = sc["scripts"]["actions"]["after0"][inv.tick];
      if (sa.get("r", "C").asString() == "S") {
        stopAt[inv.tick] = afterAt[inv.tick];
        int p = sa.get("pause", -1).asInt();
        stopDelay[inv.tick] = p >= 0 ? p * 1000LL : dRuleset;
        if (killed) v.labels.push_back("later_action_stops_after_always_continue_kill");
      } else {
        endedNoStop[inv.tick] = true;
      }
    }
  }
  bool sawStop = false, afterAsync = false;
  for (int t = 0; t < nticks && v.ok; t++) {
    if (endedNoStop[t] && t + 1 < nticks) {
      // no STOP, no pause: the detector fires, so the next tick starts a chain
      bool paused = false;
      for (int u = 0; u < t; u++)
        if (stopAt[u] >= 0 && R.tick_ms[t + 1] < stopAt[u] + stopDelay[u]) paused = true;
      if (!paused && !started[t + 1]) v.fail("the chain of tick " + std::to_string(t) + " ended without any STOP, yet no chain started at tick " + std::to_string(t + 1) + " although the detector fired");
    }
    if (stopAt[t] < 0) continue;
    sawStop = true;
    if (!started[t]) afterAsync = true; // the chain was fired on an earlier tick
    int64_t dd = stopDelay[t];
    int64_t until = stopAt[t] + dd;
    std::string at = "chain stopped at tick " + std::to_string(t) + " (t=" + std::to_string(stopAt[t]) + "ms), delay " + std::to_string(dd / 1000) + "s (kill plugin " + std::to_string(da) + ", ruleset " + std::to_string(dr) + "): ";
    for (int u = t + 1; u < nticks; u++) {
      if (R.tick_ms[u] < until) {
        if (started[u]) {
          v.fail(at + "a new chain started at tick " + std::to_string(u) + " (t=" + std::to_string(R.tick_ms[u]) + "ms), inside the pause");
          break;
        }
      } else {
        if (!started[u]) v.fail(at + "no chain started at tick " + std::to_string(u) + " (t=" + std::to_string(R.tick_ms[u]) + "ms) although the pause was over and the detector fired");
        if (R.tick_ms[u] == until) v.labels.push_back("tick_exactly_at_t+d");
        break;
      }
    }
  }
  if (sawStop && da >= 0 && da != (dr >= 0 ? dr : 15)) v.nontrivial = true;
  if (afterAsync) v.labels.push_back("stop_after_hook_wait");
  if (sawStop) v.labels.push_back("stop");
  return v;
}

int main(int argc, char** argv) {
  HarnessDef d;
  d.prop = "C05";
  d.gen = gen;
  d.run = run;
  return harnessMain(argc, argv, d);
}
