// C07 Prekill hooks: one hook per victim, finished or timed out before the kill
// (DESIGN.md §C07). Invariants over the interleaved hook / kill trace.
#include "killcommon.h"

using namespace vp;
using namespace vpk;

namespace {

Json::Value hookJ(const std::string& id, const World& w) {
  Json::Value p(Json::objectValue);
  p["name"] = "vp_hook";
  p["args"]["id"] = id;
  std::vector<std::string> paths;
  for (auto& c : w.cgs)
    if (!c.path.empty()) paths.push_back(c.path);
  std::string pats;
  int n = R(1, 3);
  for (int i = 0; i < n; i++) {
    std::string pat;
    int k = W({25, 35, 25, 15});
    if (k == 0) {
      pat = "/";
    } else if (k == 1) {
      pat = oneOf(paths);
    } else if (k == 2) {
      auto comps = vpm::splitPath(oneOf(paths));
      comps[R(0, (int)comps.size() - 1)] = "*";
      pat = vpm::joinPath(comps);
    } else {
      pat = oneOf(paths) + "/zz";
    }
    pats += (i ? "," : "") + pat;
  }
  p["args"]["cgroup"] = pats;
  return p;
}

Json::Value gen() {
  KillOpts o;
  o.dry_pct = 0;
  o.two_rulesets_pct = 0;
  o.ops_pct = 0;
  o.fire_pct = 100;
  o.kernelkill_pct = 10;
  o.always_continue_pct = 10;
  o.prof.unkillable_pct = 40;
  o.prof.maxlog2 = 34;
  o.prof.max_pids = 6;
  o.allow_root = false;
  WorldGen wg;
  wg.prof = o.prof;
  World w0 = wg.build(3, R(3, 8));
  Json::Value sc(Json::objectValue);
  Json::Value cfg(Json::objectValue);
  Json::Value k1 = genKillAction(w0, o, "false");
  std::string plugin = k1["name"].asString();
  Json::Value rs = rulesetJson(0, k1, P(60) ? R(0, 6) : -1);
  if (P(35)) {
    // a second kill action in the same chain: the hook window is shared
    Json::Value k2 = genKillAction(w0, o, "false");
    Json::Value acts(Json::arrayValue);
    for (auto& a : rs["actions"]) {
      if (a["args"].get("id", "").asString() == "after0") {
        Json::Value mid(Json::objectValue);
        mid["name"] = "vp_action";
        mid["args"]["id"] = "mid0";
        acts.append(mid);
        acts.append(k2);
      }
      acts.append(a);
    }
    rs["actions"] = acts;
  }
  if (P(80)) rs["prekill_hook_timeout"] = std::to_string(R(0, 10));
  cfg["rulesets"].append(rs);
  int nbase = R(0, 3);
  Json::Value scripts(Json::objectValue);
  auto addHookScript = [&](const std::string& id) {
    Json::Value polls(Json::arrayValue);
    int n = R(1, 4);
    for (int i = 0; i < n; i++) polls.append(W({25, 55, 20}) == 0 ? 0 : (P(75) ? R(1, 5) : -1));
    scripts["hooks"][id]["polls"] = polls;
  };
  for (int i = 0; i < nbase; i++) {
    std::string id = "bh" + std::to_string(i);
    cfg["prekill_hooks"].append(hookJ(id, w0));
    addHookScript(id);
  }
  sc["config"] = cfg;
  int ndrop = W({40, 25, 20, 15});
  for (int d = 0; d < ndrop; d++) {
    Json::Value unit(Json::objectValue);
    unit["tag"] = "drop" + std::to_string(d);
    int nh = W({50, 35, 15}) + 1;
    for (int h = 0; h < nh; h++) {
      std::string id = "dh" + std::to_string(d) + "_" + std::to_string(h);
      unit["config"]["prekill_hooks"].append(hookJ(id, w0));
      addHookScript(id);
    }
    unit["config"]["rulesets"] = Json::Value(Json::arrayValue);
    sc["dropins"].append(unit);
  }
  // drop-ins are also taken away again (the older ones more often), and a tag
  // may come back with other hooks: the priority order of what remains must
  // be unaffected
  if (ndrop >= 2 && P(50)) {
    int nrm = R(1, 2);
    for (int k = 0; k < nrm; k++) {
      int d = P(60) ? 0 : R(0, ndrop - 1);
      Json::Value rm(Json::objectValue);
      rm["tag"] = "drop" + std::to_string(d);
      rm["remove"] = true;
      sc["dropins"].append(rm);
      if (P(30)) {
        Json::Value unit(Json::objectValue);
        unit["tag"] = rm["tag"];
        std::string id = "dh" + std::to_string(d) + "_r" + std::to_string(k);
        unit["config"]["prekill_hooks"].append(hookJ(id, w0));
        addHookScript(id);
        unit["config"]["rulesets"] = Json::Value(Json::arrayValue);
        sc["dropins"].append(unit);
      }
    }
    sc["meta"]["dropin_removed"] = true;
  }
  sc["interval"] = 5;
  sc["devs"]["8:0"] = "ssd";
  // signalling takes time on a loaded machine: the hook window can close in the middle of a walk
  if (P(30)) sc["kill_cost_ms"] = R(50, 900);
  // cgroup identities as kernfs builds them: a re-created cgroup differs from its predecessor only in the
  // upper 32 bits of its id
  if (P(35)) sc["virt_ino"] = true;
  sc["world"] = w0.toJson();
  int nticks = R(3, 8);
  World view = w0;
  std::set<std::string> removed;
  std::set<int> shipped;
  for (auto& kv : wg.w.procs) shipped.insert(kv.first);
  Json::Value ticks(Json::arrayValue);
  for (int t = 0; t < nticks; t++) {
    Json::Value tick(Json::objectValue);
    tick["adv_ms"] = R(1, 4) * 1000 + subsecMs();
    Json::Value ops(Json::arrayValue);
    if (t > 0) {
      // pgscan / io drift so that the rate based plugins have candidates
      for (auto& c : view.cgs) {
        if (c.path.empty()) continue;
        for (auto& kv : c.stat)
          if (kv.first == "pgscan") kv.second += R64(1, 100000);
        if (!c.io_stat.empty()) c.io_stat[0].rbytes += R64(1, 1 << 24);
        Op op;
        op.op = "set";
        op.cg = c;
        op.cg.pids.clear();
        ops.append(op.toJson());
      }
      if (P(40)) {
        // remove, or remove and re-create under the same path, a populated cgroup
        std::vector<std::string> pop;
        for (auto& c : view.cgs)
          if (!c.path.empty() && !c.pids.empty()) pop.push_back(c.path);
        if (!pop.empty()) {
          std::string p = oneOf(pop);
          Op rmop;
          rmop.op = "rm";
          rmop.path = p;
          ops.append(rmop.toJson());
          std::vector<Cg> keep;
          for (auto& c : view.cgs) {
            if (view.isDescendantOrSelf(p, c.path) && !c.path.empty()) continue;
            keep.push_back(c);
          }
          view.cgs = keep;
          if (P(60)) {
            Op mk;
            mk.op = "mk";
            mk.cg = wg.genCg(p, true);
            if (mk.cg.pids.empty()) mk.cg.pids.push_back(wg.next_pid++);
            ops.append(mk.toJson());
            view.cgs.push_back(mk.cg);
          }
        }
      }
    }
    appendNewProcOps(ops, wg.w.procs, shipped);
    tick["ops"] = ops;
    ticks.append(tick);
    scripts["detectors"]["d0"].append(P(t < 2 ? 90 : 50) ? "C" : "S");
  }
  sc["ticks"] = ticks;
  sc["scripts"] = scripts;
  (void)plugin;
  return sc;
}

struct MHook {
  std::string id;
  std::vector<std::string> pats;
};

Verdict run(const Json::Value& sc) {
  Verdict v;
  RunResult R = runDaemon(sc);
  if (!R.config_ok) {
    v.discard = true;
    v.why = R.config_error;
    return v;
  }
  if (!R.exception.empty()) {
    v.fail(R.exception);
    return v;
  }
  // priority order: drop-in units newest first, then base hooks
  std::vector<MHook> prio;
  {
    // units in the order they were added (a removal takes its unit out)
    std::vector<std::pair<std::string, const Json::Value*>> units;
    for (auto& d : sc["dropins"]) {
      std::string tag = d["tag"].asString();
      if (d.get("remove", false).asBool()) {
        for (size_t i = 0; i < units.size();) {
          if (units[i].first == tag) {
            units.erase(units.begin() + i);
          } else {
            i++;
          }
        }
      } else {
        units.push_back({tag, &d});
      }
    }
    for (int d = (int)units.size() - 1; d >= 0; d--)
      for (auto& h : (*units[d].second)["config"]["prekill_hooks"]) prio.push_back({h["args"]["id"].asString(), vpm::splitComma(h["args"]["cgroup"].asString())});
  }
  for (auto& h : sc["config"]["prekill_hooks"]) prio.push_back({h["args"]["id"].asString(), vpm::splitComma(h["args"]["cgroup"].asString())});
  auto firstMatching = [&](const std::string& path) -> std::string {
    for (auto& h : prio)
      for (auto& p : h.pats)
        if (vpm::hookPatternMatches(path, p)) return h.id;
    return "";
  };
  const Json::Value& rs = sc["config"]["rulesets"][0];
  int timeout = rs.isMember("prekill_hook_timeout") ? atoi(rs["prekill_hook_timeout"].asCString()) : 5;
  // linear scan
  struct Live {
    int64_t serial;
    std::string victim;
    uint64_t victim_id;
    int64_t deadline;
    int fire_tick;
    bool cleared{false}; // a poll said finished, or a poll happened after the deadline
    bool destroyed{false};
  };
  std::optional<Live> cur; // the outstanding invocation of the kill cycle
  int64_t chainFire = -1, deadline = -1;
  int firesSinceAttempt = 0;
  std::string lastFireVictim;
  bool deferredThenFallbackFire = false, recreatedDuringWait = false;
  bool sawDeferred = false, failedAfterDeferred = false;
  std::map<std::string, int> firedThisCycle; // victims (identity:path) -> hook fires in the current kill cycle
  std::vector<Json::Value> killArgs; // arguments of the kill actions of the chain, in order
  for (auto& a : rs["actions"])
    if (a["name"].asString().compare(0, 8, "kill_by_") == 0) killArgs.push_back(a["args"]);
  int cycleAction = 0;
  std::string forbidden; // victim that vanished / was re-created during its hook wait
  bool forbiddenActive = false;
  for (size_t i = 0; i < R.trace.size() && v.ok; i++) {
    const Ev& e = R.trace[i];
    std::string at = " (tick " + std::to_string(e.tick) + ", t=" + std::to_string(e.t_ms) + "ms)";
    if (e.k == "teardown") break;
    if (e.k == "tick") {
      forbiddenActive = false;
      continue;
    }
    if (e.k == "plugin" && e.s == "run") {
      if (e.s2 == "pre0" || e.s2 == "mid0" || e.s2 == "after0") firedThisCycle.clear();
      if (e.s2 == "pre0") cycleAction = 0;
      if (e.s2 == "mid0") cycleAction = 1;
      if (e.s2 == "pre0") {
        chainFire = e.t_ms;
        deadline = chainFire + int64_t(timeout) * 1000;
        firesSinceAttempt = 0;
        sawDeferred = false;
        failedAfterDeferred = false;
      }
      // the resumed kill cycle is over once the next action runs
      if (e.s2 == "mid0" || e.s2 == "after0") {
        forbiddenActive = false;
        firesSinceAttempt = 0; // another action's kill cycle
        lastFireVictim.clear();
      }
      continue;
    }
    if (e.k == "hook" && e.s == "fire") {
      if (cur && !cur->destroyed) v.fail("a second prekill hook invocation was started while one is outstanding" + at);
      std::string want = firstMatching(e.p);
      if (want.empty()) {
        v.fail("hook " + e.s2 + " fired for '" + e.p + "' which none of its patterns match" + at);
      } else if (want != e.s2) {
        v.fail("hook " + e.s2 + " fired for '" + e.p + "' but " + want + " has priority" + at);
      }
      int64_t dl = e.j["actx"]["deadline_ms"].isNull() ? -1 : e.j["actx"]["deadline_ms"].asInt64();
      if (dl != deadline) v.fail("hook fired with deadline " + std::to_string(dl) + "ms, chain fired at " + std::to_string(chainFire) + "ms with timeout " + std::to_string(timeout) + "s" + at);
      if (e.t_ms > deadline) v.fail("hook " + e.s2 + " fired after the prekill_hook_timeout window closed" + at);
      firesSinceAttempt++;
      if (firesSinceAttempt > 1 && lastFireVictim == e.p) v.fail("two hooks fired for victim '" + e.p + "'" + at);
      // at most one hook per victim and kill cycle (a fallback fires for the NEXT victim)
      {
        // ... unless the configuration itself reaches the cgroup by several
        // routes (overlapping targets such as "ab,ab/a" with recursion)
        int fires = ++firedThisCycle[std::to_string(e.b) + ":" + e.p];
        int routes = 1;
        if (cycleAction < (int)killArgs.size() && e.tick >= 0 && e.tick < (int)R.worlds.size()) {
          const Json::Value& ka = killArgs[cycleAction];
          bool rec = ka.get("recursive", "false").asString() == "true";
          routes = 0;
          for (auto& t : vpm::resolveArg(R.worlds[e.tick], ka["cgroup"].asString()))
            if (t == e.p || (rec && R.worlds[e.tick].isDescendantOrSelf(t, e.p))) routes++;
          if (routes < 1) routes = 1;
        }
        if (fires > routes) v.fail("a prekill hook fired " + std::to_string(fires) + " times for victim '" + e.p + "' within one kill cycle" + at);
      }
      if (sawDeferred && failedAfterDeferred) deferredThenFallbackFire = true;
      lastFireVictim = e.p;
      Live l;
      l.serial = e.a;
      l.victim = e.p;
      l.victim_id = (uint64_t)e.b;
      l.deadline = deadline;
      l.fire_tick = e.tick;
      cur = l;
      continue;
    }
    if (e.k == "hook" && e.s == "poll") {
      if (!cur || cur->serial != e.a) {
        v.fail("poll of an unknown hook invocation" + at);
        continue;
      }
      if (e.ret || e.t_ms > cur->deadline) cur->cleared = true;
      if (e.tick > cur->fire_tick) sawDeferred = true;
      continue;
    }
    if (e.k == "hook" && e.s == "destroy") {
      if (cur && cur->serial == e.a) {
        cur->destroyed = true;
        if (e.tick > cur->fire_tick && e.tick < (int)R.inode_at_tick.size()) {
          // identity of the victim path now vs. when the hook fired
          auto& m = R.inode_at_tick[e.tick];
          auto it = m.find(cur->victim);
          bool gone = it == m.end() || it->second != cur->victim_id;
          if (gone) {
            recreatedDuringWait = true;
            forbidden = cur->victim;
            forbiddenActive = true;
          }
        }
      }
      continue;
    }
    if (forbiddenActive && (e.k == "setxattr" || e.k == "write")) {
      std::string dir = e.k == "write" ? dirOfFile(R.cgroot, e.p) : relOf(R.cgroot, e.p);
      if (dir == forbidden) {
        v.fail("victim '" + dir + "' was removed or re-created while its prekill hook ran but is touched anyway (" + e.k + " " + e.s + ")" + at);
        continue;
      }
    }
    if (e.k == "setxattr" && e.s == "trusted.oomd_kill_uuid") {
      std::string victim = relOf(R.cgroot, e.p);
      std::string want = firstMatching(victim);
      if (cur && cur->victim == victim) {
        if (!cur->cleared) v.fail("victim '" + victim + "' is killed although its prekill hook neither finished nor timed out" + at);
        if (!cur->destroyed) v.fail("victim '" + victim + "' is killed before the hook invocation was destroyed" + at);
      } else {
        if (cur && !cur->destroyed) v.fail("victim '" + victim + "' is killed while the hook invocation for '" + cur->victim + "' is outstanding" + at);
        // no hook ran for this victim: allowed only if none matches or the window is over
        if (!want.empty() && e.t_ms < deadline) {
          v.fail("victim '" + victim + "' is killed without its prekill hook " + want + " although the window is open until " + std::to_string(deadline) + "ms" + at);
        }
      }
      if (cur && cur->victim == victim) cur.reset();
      firesSinceAttempt = 0;
      // does this attempt fail (fallback follows)?
      bool ok = false;
      for (size_t j = i + 1; j < R.trace.size(); j++) {
        const Ev& f = R.trace[j];
        if (f.k == "tick" || (f.k == "setxattr" && f.s == "trusted.oomd_kill_uuid")) break;
        if (f.k == "kill" && f.ret == 0) ok = true;
        if (f.k == "write" && f.ret >= 0 && f.p.find("cgroup.kill") != std::string::npos) ok = true;
      }
      if (!ok && sawDeferred) failedAfterDeferred = true;
      continue;
    }
    if (isBoundary(e) && cur && !cur->destroyed) {
      std::string dir = e.k == "write" ? dirOfFile(R.cgroot, e.p) : (e.k == "setxattr" ? relOf(R.cgroot, e.p) : std::string("?"));
      v.fail(e.k + " on '" + dir + "' while a prekill hook invocation is outstanding" + at);
    }
  }
  if (deferredThenFallbackFire || recreatedDuringWait) v.nontrivial = true;
  if (sawDeferred) v.labels.push_back("deferred");
  if (sc["meta"].get("dropin_removed", false).asBool()) v.labels.push_back("dropin_removed");
  if (deferredThenFallbackFire) v.labels.push_back("deferred_fail_refire");
  if (recreatedDuringWait) v.labels.push_back("vanished_during_wait");
  return v;
}

} // namespace

int main(int argc, char** argv) {
  HarnessDef d;
  d.prop = "C07";
  d.gen = gen;
  d.run = run;
  return harnessMain(argc, argv, d);
}
