// C08 Detectors decide by their documented predicate over the whole sample
// history (DESIGN.md §C08). One real detector, followed by a scripted action
// that never stops: "detector returned CONTINUE" == "the action ran this tick".
#include "core.h"
#include "gen_common.h"
#include "models.h"

using namespace vp;
using namespace vpgen;

namespace {

const std::vector<std::string> kDetectors = {
    "pressure_above", "pressure_rising_beyond", "memory_above", "memory_reclaim",
    "swap_free", "exists", "nr_dying_descendants"};

Cg baseCg(const std::string& path) {
  Cg c;
  c.path = path;
  c.stat = {{"anon", 0}, {"file", 0}, {"pgscan", 0}};
  c.mem_psi = Psi();
  c.io_psi = Psi();
  return c;
}

// candidates the detector may watch
const std::vector<std::string> kCands = {"w/a", "w/ab", "w/b", "x/a"};

Json::Value gen() {
  Json::Value sc(Json::objectValue);
  std::string det = oneOf(kDetectors);
  int nticks = R(5, 30);
  World w;
  w.cgs.push_back(baseCg(""));
  w.cgs.push_back(baseCg("w"));
  w.cgs.push_back(baseCg("x"));
  WorldGen wg;
  wg.genHost();
  w.host = wg.w.host;
  int64_t memtotal_kb = R64(int64_t(1) << 20, int64_t(1) << 32);
  for (auto& kv : w.host.meminfo)
    if (kv.first == "MemTotal") kv.second = memtotal_kb;
  // detector configuration
  Json::Value d(Json::objectValue);
  d["name"] = det;
  Json::Value& a = d["args"];
  a = Json::Value(Json::objectValue);
  std::string cgarg = oneOf(std::vector<std::string>{"w/a", "w/*", "w/a,w/b", "w/a*,x/a", "*/a", "w/b,x/*", "w/?"});
  Json::Value meta(Json::objectValue);
  int threshold = R(1, 95);
  int duration = P(25) ? 0 : R(0, 40);
  std::string resource = P(50) ? "io" : "memory";
  int64_t memThr = 0;
  if (det == "pressure_above" || det == "pressure_rising_beyond") {
    a["cgroup"] = cgarg;
    a["resource"] = resource;
    a["threshold"] = std::to_string(threshold);
    a["duration"] = std::to_string(duration);
    if (det == "pressure_rising_beyond" && P(50)) {
      static const std::vector<std::string> ffr = {"0.85", "0.5", "1", "0.99", "0"};
      a["fast_fall_ratio"] = oneOf(ffr);
    }
  } else if (det == "memory_above") {
    a["cgroup"] = cgarg;
    SizeArg s = genSizeArg(memtotal_kb * 1024, 2);
    memThr = s.bytes;
    a[P(35) ? "threshold_anon" : "threshold"] = s.text;
    if (a.isMember("threshold_anon") && P(50)) a["threshold"] = "1"; // ignored when threshold_anon is given
    a["duration"] = std::to_string(duration);
    meta["threshold_bytes"] = (Json::Int64)memThr;
  } else if (det == "memory_reclaim") {
    a["cgroup"] = cgarg;
    a["duration"] = std::to_string(duration);
  } else if (det == "swap_free") {
    a["threshold_pct"] = std::to_string(R(0, 100));
    if (P(25)) a["swapout_bps_threshold"] = std::to_string(R64(0, 1 << 24));
  } else if (det == "exists") {
    a["cgroup"] = cgarg;
    if (P(50)) a["negate"] = P(50) ? "true" : "false";
  } else if (det == "nr_dying_descendants") {
    a["cgroup"] = cgarg;
    a["count"] = std::to_string(R(0, 50));
    if (P(50)) a["lte"] = P(50) ? "true" : "false";
  }
  // the control file the detector reads; a watched cgroup in which it is missing or unreadable at a
  // tick has no value to compare then
  std::string faultFile;
  std::vector<std::string> faultModes = {"absent", "unreadable", "empty"};
  if (det == "pressure_above" || det == "pressure_rising_beyond") faultFile = resource == "io" ? "io.pressure" : "memory.pressure";
  if (det == "memory_above") faultFile = a.isMember("threshold_anon") ? "memory.stat" : "memory.current";
  if (det == "nr_dying_descendants") faultFile = "cgroup.stat";
  if (faultFile == "memory.stat" || faultFile == "cgroup.stat") faultModes = {"absent", "unreadable"};
  if (!P(45)) faultFile.clear();
  meta["fault_file"] = faultFile;
  sc["meta"] = meta;
  Json::Value rs(Json::objectValue);
  rs["name"] = "rs";
  Json::Value dg(Json::arrayValue);
  dg.append("g");
  dg.append(d);
  rs["detectors"].append(dg);
  Json::Value act(Json::objectValue);
  act["name"] = "vp_action";
  act["args"]["id"] = "a";
  rs["actions"].append(act);
  rs["post_action_delay"] = "0";
  Json::Value cfg(Json::objectValue);
  cfg["rulesets"].append(rs);
  sc["config"] = cfg;
  sc["interval"] = 5;
  // a value around a threshold: below / equal / just above / far
  auto around = [&](int64_t thr, int64_t unit) -> int64_t {
    int k = W({30, 15, 30, 25});
    int64_t v = thr;
    if (k == 0) v = thr - unit * R(1, 20);
    if (k == 2) v = thr + unit * R(1, 3);
    if (k == 3) v = thr + unit * R(10, 1000);
    return v < 0 ? 0 : v;
  };
  auto fill = [&](Cg& c) {
    int thr100 = threshold * 100;
    Psi& p = resource == "io" ? c.io_psi : c.mem_psi;
    for (int i = 0; i < 3; i++) {
      int v = (int)around(thr100, 1 + R(0, 200));
      p.full[i] = std::min(v, 10000);
      p.some[i] = std::min(10000, p.full[i] + R(0, 100));
    }
    p.full_total = (uint64_t)R64(0, 1 << 30);
    p.some_total = p.full_total;
    int64_t thr = memThr ? memThr : (int64_t(1) << 30);
    c.mem_current = around(thr, 4096) & ~int64_t(0xFFF);
    if (P(15)) c.mem_current = thr; // may be unaligned: equality case
    int64_t anon = P(50) ? around(thr, 4096) : c.mem_current / 2;
    for (auto& kv : c.stat) {
      if (kv.first == "anon") kv.second = anon;
      if (kv.first == "pgscan") kv.second += P(45) ? R64(1, 100000) : 0;
    }
    c.nr_dying = R(0, 60);
  };
  std::map<std::string, bool> exists;
  for (auto& p : kCands) {
    exists[p] = P(70);
    if (exists[p]) {
      Cg c = baseCg(p);
      fill(c);
      w.cgs.push_back(c);
    }
  }
  // swap
  w.host.swaps.clear();
  int64_t swtotal = P(85) ? R64(0, int64_t(1) << 26) : 0;
  if (swtotal) w.host.swaps.push_back({swtotal, R64(0, swtotal)});
  sc["world"] = w.toJson();
  World view = w;
  int64_t lastPswpout = -1;
  Json::Value ticks(Json::arrayValue);
  for (int t = 0; t < nticks; t++) {
    Json::Value tick(Json::objectValue);
    int k = W({45, 35, 20});
    tick["adv_ms"] = (k == 0 ? 5 : k == 1 ? R(1, 20) : R(0, 3)) * 1000 + subsecMs();
    Json::Value ops(Json::arrayValue);
    if (t > 0) {
      for (auto& p : kCands) {
        int what = W({70, 10, 20});
        if (what == 1) {
          if (exists[p]) {
            Op op;
            op.op = "rm";
            op.path = p;
            ops.append(op.toJson());
            std::vector<Cg> keep;
            for (auto& c : view.cgs)
              if (c.path != p) keep.push_back(c);
            view.cgs = keep;
            exists[p] = false;
          } else {
            Op op;
            op.op = "mk";
            op.cg = baseCg(p);
            fill(op.cg);
            ops.append(op.toJson());
            view.cgs.push_back(op.cg);
            exists[p] = true;
          }
        } else if (what == 2 && exists[p]) {
          Cg* c = view.find(p);
          fill(*c);
          if (!faultFile.empty()) {
            if (c->faults.count(faultFile)) {
              if (P(50)) c->faults.erase(faultFile);
            } else if (P(25)) {
              c->faults[faultFile] = oneOf(faultModes);
            }
          }
          Op op;
          op.op = "set";
          op.cg = *c;
          ops.append(op.toJson());
        }
      }
      if (P(40)) {
        Op h;
        h.op = "host";
        h.host = view.host;
        if (!h.host.swaps.empty()) h.host.swaps[0].used_kb = R64(0, h.host.swaps[0].size_kb);
        bool havePs = false;
        for (auto& kv : h.host.vmstat)
          if (kv.first == "pswpout") {
            kv.second += R64(0, 1 << 16);
            lastPswpout = kv.second;
            havePs = true;
          }
        // kernels / moments without the counter: the key goes away and comes back
        if (havePs && P(15)) {
          std::vector<std::pair<std::string, int64_t>> keep;
          for (auto& kv : h.host.vmstat)
            if (kv.first != "pswpout") keep.push_back(kv);
          h.host.vmstat = keep;
        } else if (!havePs && lastPswpout >= 0 && P(60)) {
          lastPswpout += R64(0, 1 << 16);
          h.host.vmstat.push_back({"pswpout", lastPswpout});
        }
        view.host = h.host;
        ops.append(h.toJson());
      }
    }
    tick["ops"] = ops;
    ticks.append(tick);
  }
  sc["ticks"] = ticks;
  Json::Value scripts(Json::objectValue);
  scripts["actions"]["a"] = "C";
  sc["scripts"] = scripts;
  return sc;
}

struct Sample {
  bool exceed{false};
  bool ambiguous{false};
};

Verdict run(const Json::Value& sc) {
  Verdict v;
  RunResult R = runDaemon(sc);
  if (!R.config_ok) {
    v.fail("documented detector configuration rejected: " + R.config_error + " " + jstr(sc["config"]["rulesets"][0]["detectors"][0][1]));
    return v;
  }
  if (!R.exception.empty()) {
    v.fail(R.exception);
    return v;
  }
  const Json::Value& d = sc["config"]["rulesets"][0]["detectors"][0][1];
  std::string det = d["name"].asString();
  const Json::Value& a = d["args"];
  int nticks = sc["ticks"].size();
  std::vector<bool> obs(nticks, false);
  for (auto& e : R.trace)
    if (e.k == "plugin" && e.s == "run" && e.s2 == "a" && e.tick >= 0 && e.tick < nticks) obs[e.tick] = true;
  int threshold = a.isMember("threshold") && det != "memory_above" ? atoi(a["threshold"].asCString()) : 0;
  int duration = a.isMember("duration") ? atoi(a["duration"].asCString()) : 0;
  std::string resource = a.get("resource", "memory").asString();
  double ffr = a.isMember("fast_fall_ratio") ? atof(a["fast_fall_ratio"].asCString()) : 0.85;
  int64_t memThr = sc["meta"].get("threshold_bytes", 0).asInt64();
  bool anon = a.isMember("threshold_anon");
  // model state
  int64_t runStart = -1; // time the current run of exceeding samples began (-1: none)
  int prev10 = -1; // previous tick's watched 10 s value (hundredths), -1 = none
  int64_t prevSum = -1;
  std::set<std::string> prevSet;
  int64_t lastReclaim = -1, lastMaybe = -1;
  int64_t prevPswpout = -1;
  bool sawPswpoutGap = false, sawUnavailable = false;
  int changes = 0;
  bool last = false;
  for (int t = 0; t < nticks && v.ok; t++) {
    const World& w = R.worlds[t];
    int64_t now = R.tick_ms[t];
    std::set<std::string> watched;
    if (a.isMember("cgroup")) watched = vpm::resolveArg(w, a["cgroup"].asString());
    std::string at = " at tick " + std::to_string(t) + " (t=" + std::to_string(now) + "ms), " + det + " " + jstr(a);
    bool expect = false, dontcare = false;
    std::string faultFile = sc["meta"].get("fault_file", "").asString();
    auto unavailable = [&](const Cg* c) {
      bool u = !faultFile.empty() && c->faults.count(faultFile);
      if (u) sawUnavailable = true;
      return u;
    };
    if (det == "pressure_above" || det == "pressure_rising_beyond") {
      // the cgroup under the most pressure (weighted 3:2:1); ties with
      // different verdicts are a don't-care
      long best = -1;
      std::vector<const Psi*> tops;
      for (auto& p : watched) {
        const Cg* c = w.find(p);
        static const Psi kNoPsi = [] {
          Psi z;
          for (int i = 0; i < 3; i++) z.full[i] = z.some[i] = 0;
          return z;
        }();
        const Psi& psi = unavailable(c) ? kNoPsi : (resource == "io" ? c->io_psi : c->mem_psi);
        long wgt = 3L * psi.full[0] + 2L * psi.full[1] + psi.full[2];
        if (wgt > best) {
          best = wgt;
          tops.clear();
        }
        if (wgt == best) tops.push_back(&psi);
      }
      int s10 = 0, s60 = 0;
      if (best > 0 && !tops.empty()) {
        s10 = tops[0]->full[0];
        s60 = tops[0]->full[1];
        for (auto* p : tops)
          if (p->full[0] != s10 || p->full[1] != s60) dontcare = true;
      }
      int key = det == "pressure_above" ? s10 : s60;
      bool exceed = key > threshold * 100;
      if (exceed) {
        if (runStart < 0) runStart = now;
      } else {
        runStart = -1;
      }
      bool durMet = exceed && (now - runStart) / 1000 >= duration;
      if (det == "pressure_above") {
        expect = durMet;
      } else {
        bool above10 = s10 > threshold * 100;
        if (prev10 < 0) {
          // first sample of the fall test: construction convention, not fixed
          if (durMet && above10) dontcare = true;
          expect = false;
        } else {
          double lim = (double)(float)(prev10 / 100.0) * (double)(float)ffr;
          double cur = (double)(float)(s10 / 100.0);
          bool falling = cur < lim;
          if (std::fabs(cur - lim) < 1e-4) dontcare = true;
          expect = durMet && above10 && !falling;
        }
        prev10 = s10;
      }
      if (dontcare && tops.size() > 1) {
        // which cgroup is watched is open: the rest of the history is not judged
        v.labels.push_back("ambiguous_watch");
        break;
      }
    } else if (det == "memory_above") {
      int64_t mx = 0;
      for (auto& p : watched) {
        const Cg* c = w.find(p);
        int64_t u = unavailable(c) ? 0 : (anon ? c->statv("anon", 0) : c->mem_current);
        mx = std::max(mx, u);
      }
      bool exceed = mx > memThr;
      if (exceed) {
        if (runStart < 0) runStart = now;
      } else {
        runStart = -1;
      }
      expect = exceed && (now - runStart) / 1000 >= duration;
    } else if (det == "memory_reclaim") {
      int64_t sum = 0;
      for (auto& p : watched) sum += w.find(p)->statv("pgscan", 0);
      bool grewDefinite = false, grewMaybe = false;
      if (prevSum < 0) {
        // first sample: whether it counts as "grew" is a convention
        grewMaybe = true;
      } else if (watched != prevSet) {
        grewMaybe = true; // the sums are not comparable
      } else if (sum > prevSum) {
        grewDefinite = true;
      }
      if (grewDefinite) lastReclaim = now;
      if (grewMaybe) lastMaybe = now;
      bool def = lastReclaim >= 0 && (now - lastReclaim) / 1000 <= duration;
      bool maybe = lastMaybe >= 0 && (now - lastMaybe) / 1000 <= duration;
      expect = def;
      if (!def && maybe) dontcare = true;
      prevSum = sum;
      prevSet = watched;
    } else if (det == "swap_free") {
      uint64_t total = 0, used = 0;
      for (auto& s : w.host.swaps) {
        total += (uint64_t)s.size_kb * 1024;
        used += (uint64_t)s.used_kb * 1024;
      }
      int pct = atoi(a["threshold_pct"].asCString());
      bool low = (total - used) < total * (uint64_t)pct / 100;
      bool rate = true;
      if (a.isMember("swapout_bps_threshold")) {
        int64_t thr = atoll(a["swapout_bps_threshold"].asCString());
        // a rate exists only between two samples that both carry the counter
        int64_t ps = w.host.vm("pswpout", -1);
        double bps = (prevPswpout < 0 || ps < 0) ? 0.0 : (double)(ps - prevPswpout) * 4096.0 / 5.0;
        if (ps < 0 || (prevPswpout < 0 && t > 0)) sawPswpoutGap = true;
        rate = bps >= (double)thr;
        if (std::fabs(bps - (double)thr) < 1.0) dontcare = true;
      }
      prevPswpout = w.host.vm("pswpout", -1);
      expect = low && rate;
    } else if (det == "exists") {
      bool ex = !watched.empty();
      if (a.get("negate", "false").asString() == "true") ex = !ex;
      expect = ex;
    } else if (det == "nr_dying_descendants") {
      int64_t count = atoll(a["count"].asCString());
      bool lte = a.get("lte", "true").asString() == "true";
      for (auto& p : watched) {
        if (unavailable(w.find(p))) continue; // nothing to compare
        int64_t nr = w.find(p)->nr_dying;
        if ((lte && nr <= count) || (!lte && nr > count)) expect = true;
      }
    }
    if (dontcare) {
      v.labels.push_back("dontcare_tick");
      last = obs[t];
      continue;
    }
    if (obs[t] != expect) {
      v.fail(std::string("detector returned ") + (obs[t] ? "CONTINUE" : "STOP") + ", the documented predicate says " + (expect ? "CONTINUE" : "STOP") + at);
      break;
    }
    if (t > 0 && expect != last) changes++;
    last = expect;
  }
  if (duration > 0 && changes >= 2) v.nontrivial = true;
  if ((det == "swap_free" || det == "exists" || det == "nr_dying_descendants") && changes >= 2) v.nontrivial = true;
  v.labels.push_back(det);
  if (sawPswpoutGap) v.labels.push_back("pswpout_key_gap");
  if (sawUnavailable) v.labels.push_back("watched_value_unavailable");
  return v;
}

} // namespace

int main(int argc, char** argv) {
  HarnessDef d;
  d.prop = "C08";
  d.gen = gen;
  d.run = run;
  return harnessMain(argc, argv, d);
}
