// C09 Each kill plugin's first choice follows its documented ranking policy
// (DESIGN.md §C09). Siblings with generated statistics; the first cgroup the
// real plugin attempts is compared with the acceptable set of the RankModel.
#include <array>
#include "killcommon.h"
#include "rankmodel.h"

using namespace vp;
using namespace vpk;
using namespace vpr;

namespace {

struct Th { // structured swap threshold with its exact byte value
  std::string text;
  int64_t bytes;
};

Th genThreshold(int64_t swapTotalBytes) {
  Th t;
  int form = W({30, 25, 45});
  if (form == 0) {
    int n = R(0, 100);
    t.text = std::to_string(n) + "%";
    t.bytes = (int64_t)((__int128)swapTotalBytes * n / 100);
  } else if (form == 1) {
    int64_t mb = R64(0, 1 << 20);
    t.text = std::to_string(mb);
    t.bytes = mb << 20;
  } else {
    // <int>[.5]<unit>
    int unit = R(0, 3); // K M G T
    static const char* U = "KMGT";
    int64_t mant = unit == 3 ? R(0, 64) : R(0, 4096);
    bool half = P(30);
    int64_t mul = int64_t(1) << (10 * (unit + 1));
    t.bytes = mant * mul + (half ? mul / 2 : 0);
    t.text = std::to_string(mant) + (half ? ".5" : "") + std::string(1, U[unit]);
    if (P(20)) {
      int64_t extra = R(0, 4096);
      t.text += " " + std::to_string(extra) + "K";
      t.bytes += extra << 10;
    }
  }
  return t;
}

// A sibling growing at exactly the configured fractional ratio p/q (1.3 = 13/10): with the moving average
// avg1 = floor(u0/4)*0.75 + u1/4 the history u0 = 4K(4q-p)/3, u1 = pK gives avg1 = qK exactly. A larger
// sibling shrinks (ratio below p/q), nobody reaches size_threshold 100: the grower is the only right answer.
Json::Value genExactGrowth() {
  Json::Value sc(Json::objectValue);
  static const std::vector<std::array<int, 2>> ratios = {{13, 10}, {19, 10}, {115, 100}, {26, 10}, {11, 10}, {17, 10}, {125, 100}, {15, 10}};
  auto pq = ratios[R(0, (int)ratios.size() - 1)];
  int64_t p = pq[0], q = pq[1];
  int64_t K = int64_t(3) * 4096 * R(1, 2000);
  int64_t u0 = 4 * K * (4 * q - p) / 3, u1 = p * K;
  WorldGen wg;
  wg.prof.prefs = false;
  wg.prof.oom_group = false;
  wg.prof.outcomes = false;
  wg.prof.zero_lines = false;
  wg.prof.max_pids = 3;
  World w;
  Cg root;
  root.stat = {{"anon", 0}, {"file", 0}, {"pgscan", 0}};
  w.cgs.push_back(root);
  auto mk = [&](const std::string& path, bool leaf, int64_t usage) {
    Cg c = wg.genCg(path, leaf);
    c.zombie = false;
    if (leaf && c.pids.empty()) c.pids.push_back(wg.next_pid++);
    if (!leaf) c.pids.clear();
    c.mem_current = usage;
    c.mem_low = c.mem_min = 0;
    w.cgs.push_back(c);
  };
  int64_t big0 = (u1 * R(3, 9)) & ~int64_t(0xFFF); // the large sibling: more than the grower at the kill tick ...
  int64_t big1 = big0;
  big0 = big1 * 6; // ... but down to a sixth of what it had (ratio 1 / (0.1875 * 6 + 0.25) = 0.73)
  mk("p", false, 0);
  mk("p/s0", true, u0);
  mk("p/s1", true, big0);
  mk("p/s2", true, int64_t(4096) * R(1, 100));
  w.find("p")->mem_current = u0 + big0;
  wg.genHost();
  w.host = wg.w.host;
  sc["world"] = w.toJson();
  Json::Value a(Json::objectValue);
  a["name"] = "kill_by_memory_size_or_growth";
  a["args"]["cgroup"] = "p/*";
  a["args"]["post_action_delay"] = "0";
  a["args"]["size_threshold"] = "100";
  a["args"]["growing_size_percentile"] = "0";
  {
    // the ratio as a decimal: 13/10 -> "1.3"
    std::string t = std::to_string(p / q) + ".";
    int64_t rem = p % q;
    for (int64_t d = q / 10; d >= 1; d /= 10) {
      t += char('0' + rem / d);
      rem %= d;
    }
    a["args"]["min_growth_ratio"] = t;
  }
  Json::Value meta(Json::objectValue);
  meta["exact_growth"]["num"] = (Json::Int64)p;
  meta["exact_growth"]["den"] = (Json::Int64)q;
  sc["meta"] = meta;
  Json::Value cfg(Json::objectValue);
  cfg["rulesets"].append(rulesetJson(0, a, 0));
  sc["config"] = cfg;
  sc["interval"] = 5;
  sc["devs"]["8:0"] = "ssd";
  Json::Value ticks(Json::arrayValue), scripts(Json::objectValue);
  for (int t = 0; t < 2; t++) {
    Json::Value tick(Json::objectValue);
    tick["adv_ms"] = 5000;
    Json::Value ops(Json::arrayValue);
    if (t == 1) {
      for (auto& kv : std::vector<std::pair<std::string, int64_t>>{{"p/s0", u1}, {"p/s1", big1}}) {
        Cg* c = w.find(kv.first);
        c->mem_current = kv.second;
        Op op;
        op.op = "set";
        op.cg = *c;
        op.cg.pids.clear();
        ops.append(op.toJson());
      }
    }
    tick["ops"] = ops;
    ticks.append(tick);
    scripts["detectors"]["d0"].append(t == 1 ? "C" : "S");
  }
  sc["ticks"] = ticks;
  sc["scripts"] = scripts;
  return sc;
}

Json::Value gen() {
  if (P(6)) return genExactGrowth();
  Json::Value sc(Json::objectValue);
  std::string plugin = oneOf(killPlugins());
  int n = R(2, 8);
  int mode = W({45, 35, 20}); // small, big, ties
  // exact-hit mode: every sibling holds exactly size_threshold % of the total
  bool exactHit = plugin == "kill_by_memory_size_or_growth" && P(20);
  if (exactHit) n = oneOf(std::vector<int>{2, 4, 5});
  int maxlog2 = mode == 1 ? 58 : 32;
  World w;
  Cg root;
  root.stat = {{"anon", 0}, {"file", 0}, {"pgscan", 0}};
  w.cgs.push_back(root);
  WorldGen wg;
  wg.prof.maxlog2 = maxlog2;
  wg.prof.prefs = false;
  wg.prof.oom_group = false;
  wg.prof.outcomes = false;
  wg.prof.zero_lines = false;
  wg.prof.max_pids = 3;
  auto mkcg = [&](const std::string& path, bool leaf) {
    Cg c = wg.genCg(path, leaf);
    c.zombie = false;
    if (leaf && c.pids.empty()) c.pids.push_back(wg.next_pid++);
    // keep the sum over the host below 2^62
    c.mem_current = std::min<int64_t>(c.mem_current, (int64_t(1) << 58)) & ~int64_t(0xFFF);
    c.swap_current = std::min<int64_t>(c.swap_current, (int64_t(1) << 58)) & ~int64_t(0xFFF);
    return c;
  };
  bool protMode = P(40) || exactHit;
  Cg parent = mkcg("p", false);
  parent.pids.clear();
  if (P(50)) {
    parent.mem_low = 0;
    parent.mem_min = 0;
  }
  w.cgs.push_back(parent);
  if (P(40)) w.cgs.push_back(mkcg("q", true));
  std::vector<std::string> sib;
  for (int i = 0; i < n; i++) {
    std::string path = "p/s" + std::to_string(i);
    Cg c = mkcg(path, true);
    if (P(60)) {
      c.mem_low = 0;
      c.mem_min = 0;
    }
    if (mode == 2 && i > 0 && P(60)) {
      const Cg* o = w.find(oneOf(sib));
      c.mem_current = o->mem_current;
      c.swap_current = o->swap_current;
      c.mem_low = o->mem_low;
      c.mem_min = o->mem_min;
      c.mem_psi = o->mem_psi;
      c.io_psi = o->io_psi;
      c.stat = o->stat;
      c.io_stat = o->io_stat;
    }
    if (P(10)) c.swap_current = 0;
    if (P(10)) c.mem_current = 0;
    if (protMode && P(60)) {
      // protection comparable to the usage, so usage order != effective order
      c.mem_low = (int64_t)((long double)c.mem_current * oneOf(std::vector<double>{0.3, 0.6, 0.9, 1.2})) & ~int64_t(0xFFF);
      c.mem_min = 0;
    }
    sib.push_back(path);
    w.cgs.push_back(c);
  }
  if (protMode) {
    // the parent passes its children's protection through (realistic: its
    // usage is the sum of theirs and it is fully protected itself)
    Cg* par = w.find("p");
    int64_t sum = 0;
    for (auto& p : sib) sum += w.find(p)->mem_current;
    par->mem_current = sum;
    par->mem_low = kMax;
  }
  wg.genHost();
  w.host = wg.w.host;
  // MemTotal / SwapTotal above 2^31 and 2^32 bytes
  int64_t memtotal_kb = R64(int64_t(1) << 20, int64_t(1) << 34);
  int64_t swaptotal_kb = P(85) ? R64(0, int64_t(1) << 33) : 0;
  for (auto& kv : w.host.meminfo) {
    if (kv.first == "MemTotal") kv.second = memtotal_kb;
    if (kv.first == "MemFree") kv.second = memtotal_kb / 4;
    if (kv.first == "SwapTotal") kv.second = swaptotal_kb;
    if (kv.first == "SwapFree") kv.second = swaptotal_kb / 2;
  }
  w.host.swaps.clear();
  if (swaptotal_kb) w.host.swaps.push_back({swaptotal_kb, swaptotal_kb / 2});
  sc["world"] = w.toJson();
  // the kill action
  Json::Value a(Json::objectValue);
  a["name"] = plugin;
  a["args"]["cgroup"] = "p/*";
  a["args"]["post_action_delay"] = "0";
  if (P(30)) a["args"]["reap_memory"] = "false";
  Json::Value meta(Json::objectValue);
  if (plugin == "kill_by_memory_size_or_growth") {
    if (exactHit) {
      a["args"]["size_threshold"] = std::to_string(100 / n);
    } else if (P(70)) {
      a["args"]["size_threshold"] = std::to_string(P(25) ? 100 : R(0, 100));
    }
    if (P(60)) a["args"]["growing_size_percentile"] = std::to_string(R(0, 99));
    if (exactHit) {
      a["args"]["min_growth_ratio"] = P(50) ? "0.5" : "1";
      a["args"]["growing_size_percentile"] = "0";
    } else if (P(70)) {
      static const std::vector<std::string> ratios = {"1.25", "1", "1.1", "1.5", "2", "0.5", "1.75", "3", "1.05"};
      a["args"]["min_growth_ratio"] = oneOf(ratios);
    }
  } else if (plugin == "kill_by_swap_usage") {
    if (P(75)) {
      Th t = genThreshold(swaptotal_kb * 1024);
      a["args"]["threshold"] = t.text;
      meta["threshold_bytes"] = (Json::Int64)t.bytes;
    }
    if (P(35)) a["args"]["biased_swap_kill"] = "true";
  } else if (plugin == "kill_by_pressure") {
    a["args"]["resource"] = P(50) ? "io" : "memory";
  }
  sc["meta"] = meta;
  Json::Value cfg(Json::objectValue);
  cfg["rulesets"].append(rulesetJson(0, a, 0));
  sc["config"] = cfg;
  sc["interval"] = 5;
  sc["devs"]["8:0"] = "ssd";
  int nticks = R(plugin == "kill_by_pg_scan" || plugin == "kill_by_io_cost" || exactHit ? 2 : 1, 4);
  int64_t hitUsage = (R64(1, int64_t(1) << 28)) << 12;
  // a sibling whose memory.stat carries no pgscan line on the tick before the
  // kill: it has no previous sample then, whatever it showed two ticks ago
  std::string gapSib = (plugin == "kill_by_pg_scan" && nticks >= 3 && P(40)) ? oneOf(sib) : std::string();
  int64_t gapSaved = 0;
  World view = w;
  Json::Value ticks(Json::arrayValue);
  Json::Value scripts(Json::objectValue);
  for (int t = 0; t < nticks; t++) {
    Json::Value tick(Json::objectValue);
    tick["adv_ms"] = 5000;
    Json::Value ops(Json::arrayValue);
    if (t > 0) {
      for (auto& p : sib) {
        bool last = t == nticks - 1;
        bool gapNow = p == gapSib && (t == nticks - 2 || last);
        if (!(exactHit && last) && !gapNow && !P(70)) continue;
        Cg* c = view.find(p);
        int how = W({40, 30, 30});
        if (exactHit && last) how = 3;
        if (how == 0) {
          c->mem_current = std::min<int64_t>(pages(maxlog2), int64_t(1) << 58) & ~int64_t(0xFFF);
        } else if (how == 1) {
          // grow by a factor around the configured ratios
          long double f = oneOf(std::vector<double>{1.0, 1.2, 1.3, 1.6, 2.5, 0.8});
          long double nv = (long double)c->mem_current * f;
          if (nv > (long double)(int64_t(1) << 58)) nv = (long double)(int64_t(1) << 58);
          c->mem_current = ((int64_t)nv) & ~int64_t(0xFFF);
        }
        if (how == 3) {
          c->mem_current = hitUsage;
          c->mem_min = 0;
          c->mem_low = P(70) ? ((int64_t)((long double)hitUsage * oneOf(std::vector<double>{0.1, 0.3, 0.6, 0.9})) & ~int64_t(0xFFF)) : 0;
        }
        for (auto& kv : c->stat)
          if (kv.first == "pgscan" && P(70)) kv.second += P(20) ? 0 : R64(0, 1000000);
        if (gapNow && !last) {
          for (size_t i = 0; i < c->stat.size(); i++)
            if (c->stat[i].first == "pgscan") {
              gapSaved = c->stat[i].second;
              c->stat.erase(c->stat.begin() + i);
              break;
            }
        } else if (gapNow) {
          c->stat.push_back({"pgscan", gapSaved + R64(500000, 5000000)});
        }
        if (!c->io_stat.empty() && P(70)) {
          c->io_stat[0].rbytes += R64(0, int64_t(1) << 30);
          c->io_stat[0].wios += R64(0, 100000);
        }
        Op op;
        op.op = "set";
        op.cg = *c;
        op.cg.pids.clear();
        ops.append(op.toJson());
      }
    }
    tick["ops"] = ops;
    ticks.append(tick);
    // kill_by_pg_scan samples only on ticks on which it runs
    bool fire = t == nticks - 1 || (plugin == "kill_by_pg_scan" && t == nticks - 2) || (!gapSib.empty() && t == nticks - 3);
    scripts["detectors"]["d0"].append(fire ? "C" : "S");
  }
  sc["ticks"] = ticks;
  sc["scripts"] = scripts;
  return sc;
}

Verdict run(const Json::Value& sc) {
  Verdict v;
  RunResult R = runDaemon(sc);
  if (!R.config_ok) {
    v.fail("documented configuration rejected: " + R.config_error + " args=" + jstr(killActionOf(sc["config"]["rulesets"][0])["args"]));
    return v;
  }
  if (!R.exception.empty()) {
    v.fail(R.exception);
    return v;
  }
  const Json::Value& ka = killActionOf(sc["config"]["rulesets"][0]);
  const Json::Value& args = ka["args"];
  RankInput in;
  in.spec.name = ka["name"].asString();
  if (args.isMember("size_threshold")) in.spec.size_threshold = atoi(args["size_threshold"].asCString());
  if (args.isMember("growing_size_percentile")) in.spec.growing_size_percentile = atoi(args["growing_size_percentile"].asCString());
  if (args.isMember("min_growth_ratio")) in.spec.min_growth_ratio = strtold(args["min_growth_ratio"].asCString(), nullptr);
  if (sc["meta"].isMember("exact_growth")) {
    in.spec.ratio_num = sc["meta"]["exact_growth"]["num"].asInt64();
    in.spec.ratio_den = sc["meta"]["exact_growth"]["den"].asInt64();
  }
  if (sc["meta"].isMember("threshold_bytes")) in.spec.swap_threshold = sc["meta"]["threshold_bytes"].asInt64();
  in.spec.biased = args.get("biased_swap_kill", "false").asString() == "true";
  in.spec.resource = args.get("resource", "memory").asString();
  int nticks = sc["ticks"].size();
  const World& w0 = R.worlds[0];
  {
    long double st = (long double)w0.host.mem("SwapTotal") * 1024, mt = (long double)w0.host.mem("MemTotal") * 1024;
    in.spec.swap_ratio = mt > 0 ? (long double)(float)(st / mt) : 0;
  }
  vps::DevCfg dev;
  dev.devs["8:0"] = "ssd";
  // temporal state over the history (every sibling exists from tick 0)
  std::map<std::string, Temporal> temp;
  std::vector<std::string> sib;
  for (auto& c : w0.cgs)
    if (c.path.compare(0, 2, "p/") == 0) sib.push_back(c.path);
  int killTick = nticks - 1;
  bool gapSeen = false;
  for (int t = 0; t <= killTick; t++) {
    const World& w = R.worlds[t];
    for (auto& p : sib) {
      const Cg* c = w.find(p);
      Temporal& tm = temp[p];
      long double prev = tm.have_avg ? std::floor(tm.avg) : 0;
      tm.avg = prev * 0.75L + (long double)c->mem_current / 4.0L;
      tm.have_avg = true;
      long double cost = 0;
      for (auto& d : c->io_stat) {
        if (d.major != 8 || d.minor != 0) continue;
        cost += (long double)d.rios * dev.ssd[0] + (long double)d.rbytes * dev.ssd[1] + (long double)d.wios * dev.ssd[2] + (long double)d.wbytes * dev.ssd[3] + (long double)d.dios * dev.ssd[4] + (long double)d.dbytes * dev.ssd[5];
      }
      if (t > 0) {
        tm.have_prev_io = true;
        tm.prev_io = tm.cur_io;
      }
      tm.cur_io = cost;
      if (t == killTick && killTick > 0) {
        // the previous tick's sample, if that tick's memory.stat had one
        int64_t pv = R.worlds[t - 1].find(p)->statv("pgscan", -1);
        tm.have_prev_pgscan = pv >= 0;
        tm.prev_pgscan = pv;
        if (pv < 0) gapSeen = true;
      }
    }
  }
  const World& w = R.worlds[killTick];
  in.w = &w;
  in.rootCurrent = (w.host.mem("MemTotal") - w.host.mem("MemFree")) * 1024;
  in.temporal = temp;
  auto keys = keysOf(in, sib);
  bool uncertain = false;
  std::vector<std::string> eligible;
  for (auto& p : sib) {
    if (keys[p].uncertain) uncertain = true;
    // an earlier firing tick of this scenario may have emptied a sibling: unpopulated cgroups are skipped (C03)
    if (keys[p].eligible && w.populated(p)) eligible.push_back(p);
  }
  auto acc = acceptableFirst(keys, eligible);
  // observed: the first attempt of the invocation at the kill tick
  std::string victim;
  bool attempted = false;
  for (auto& inv : segment(R)) {
    if (inv.tick != killTick) continue;
    if (!inv.attempts.empty()) {
      attempted = true;
      victim = inv.attempts[0].victim;
    }
  }
  if (uncertain) {
    v.labels.push_back("uncertain_phase");
    return v;
  }
  auto showSet = [&](const std::set<std::string>& s) {
    std::string r;
    for (auto& x : s) r += x + " ";
    return r;
  };
  if (!attempted) {
    if (!eligible.empty()) {
      v.fail(in.spec.name + " chose no victim although eligible siblings exist: " + showSet(acc));
    }
    v.labels.push_back("no_victim");
    return v;
  }
  if (std::find(sib.begin(), sib.end(), victim) == sib.end()) {
    v.fail("first victim '" + victim + "' is not one of the siblings");
    return v;
  }
  if (!keys[victim].eligible) {
    v.fail(in.spec.name + " chose '" + victim + "' which fails its eligibility filter (args " + jstr(args) + ")");
    return v;
  }
  if (!acc.count(victim)) {
    std::string why = in.spec.name + " chose '" + victim + "' first; the documented ranking allows only: " + showSet(acc) + "(args " + jstr(args) + ")";
    v.fail(why);
    Json::Value d(Json::objectValue);
    for (auto& p : sib) {
      Json::Value k(Json::arrayValue);
      for (auto x : keys[p].k) k.append((double)x);
      d[p]["key"] = k;
      d[p]["eligible"] = keys[p].eligible;
    }
    v.detail = d;
    return v;
  }
  if (sib.size() >= 3 && acc.size() < eligible.size()) v.nontrivial = true;
  v.labels.push_back(in.spec.name);
  if (sc["meta"].isMember("exact_growth")) {
    v.labels.push_back("growth_at_exactly_the_ratio");
    v.nontrivial = true;
  }
  if (gapSeen) v.labels.push_back("pgscan_sample_gap");
  return v;
}

} // namespace

int main(int argc, char** argv) {
  HarnessDef d;
  d.prop = "C09";
  d.gen = gen;
  d.run = run;
  return harnessMain(argc, argv, d);
}
