// C10 A tick survives missing, empty or vanishing cgroup files without crash or
// UB (DESIGN.md §C10). Baseline scenarios with every core plugin configured;
// faults are enumerated (fixed mode) or sampled / combined (gen mode).
#include "killcommon.h"

#include <cerrno>

using namespace vp;
using namespace vpk;

namespace {

// ------------------------------------------------------------- baseline ----
struct Rnd { // deterministic stream for the enumerated baselines
  uint64_t s;
  uint64_t next() {
    s += 0x9E3779B97F4A7C15ull;
    uint64_t z = s;
    z = (z ^ (z >> 30)) * 0xBF58476D1CE4E5B9ull;
    z = (z ^ (z >> 27)) * 0x94D049BB133111EBull;
    return z ^ (z >> 31);
  }
  int64_t in(int64_t lo, int64_t hi) {
    return lo + (int64_t)(next() % (uint64_t)(hi - lo + 1));
  }
};

const std::vector<std::string> kRoles = {"", "work/w1", "work", "work/w2", "work/w2/c"};
const std::vector<std::string> kFiles = {
    "cgroup.controllers", "cgroup.procs", "cgroup.events", "cgroup.stat", "cgroup.freeze", "cgroup.kill",
    "memory.current", "memory.min", "memory.low", "memory.high", "memory.max", "memory.high.tmp",
    "memory.reclaim", "memory.stat", "memory.pressure", "memory.oom.group", "memory.swap.current",
    "memory.swap.max", "io.pressure", "io.stat", "pids.current"};
const std::vector<std::string> kModes = {"absent", "empty", "unreadable", "eacces"};
const std::vector<std::string> kHostFiles = {"meminfo", "vmstat", "swaps", "pressure/memory", "pressure/io", "swappiness"};

Cg mkCg(Rnd& r, const std::string& path, int npids, int& pid) {
  Cg c;
  c.path = path;
  for (int i = 0; i < npids; i++) c.pids.push_back(pid++);
  int64_t usage = r.in(1, 1 << 20) << 12;
  c.mem_current = usage;
  int64_t file = r.in(0, usage >> 12) << 12;
  int64_t anon = usage - file;
  c.stat = {{"anon", anon}, {"file", file}, {"kernel_stack", 16384}, {"shmem", 0}, {"inactive_anon", anon}, {"active_anon", 0}, {"inactive_file", file / 2}, {"active_file", file - file / 2}, {"pgscan", r.in(0, 100000)}, {"pgsteal", 0}};
  c.mem_low = r.in(0, 3) == 0 ? r.in(0, usage >> 12) << 12 : 0;
  c.swap_current = r.in(0, 1 << 16) << 12;
  c.swap_max = r.in(0, 2) == 0 ? r.in(1, 1 << 18) << 12 : kMax;
  for (int i = 0; i < 3; i++) {
    c.mem_psi.some[i] = (int)r.in(0, 9000);
    c.mem_psi.full[i] = (int)r.in(0, c.mem_psi.some[i]);
    c.io_psi.some[i] = (int)r.in(0, 9000);
    c.io_psi.full[i] = (int)r.in(0, c.io_psi.some[i]);
  }
  c.mem_psi.some_total = r.in(0, 1 << 30);
  c.mem_psi.full_total = c.mem_psi.some_total / 2;
  c.io_psi.some_total = r.in(0, 1 << 30);
  c.io_psi.full_total = c.io_psi.some_total / 2;
  IoDev d;
  d.major = 8;
  d.minor = 0;
  d.rbytes = r.in(0, 1 << 30);
  d.wbytes = r.in(0, 1 << 30);
  d.rios = r.in(0, 100000);
  d.wios = r.in(0, 100000);
  c.io_stat.push_back(d);
  c.pids_current = (int64_t)c.pids.size();
  c.has_high_tmp = true;
  c.nr_dying = r.in(0, 5);
  return c;
}

Json::Value plug(const std::string& name, std::initializer_list<std::pair<const char*, std::string>> args) {
  Json::Value p(Json::objectValue);
  p["name"] = name;
  p["args"] = Json::Value(Json::objectValue);
  for (auto& kv : args) p["args"][kv.first] = kv.second;
  return p;
}

Json::Value rsOf(const std::string& name, const Json::Value& det, const std::vector<Json::Value>& acts) {
  Json::Value rs(Json::objectValue);
  rs["name"] = name;
  Json::Value dg(Json::arrayValue);
  dg.append("g");
  dg.append(det);
  rs["detectors"].append(dg);
  for (auto& a : acts) rs["actions"].append(a);
  rs["post_action_delay"] = "0";
  return rs;
}

Json::Value baseline(uint64_t seed) {
  Rnd r{seed * 7919 + 17};
  int pid = 100;
  World w;
  Cg root;
  root.stat = {{"anon", 0}, {"file", 0}, {"pgscan", 0}};
  w.cgs.push_back(root);
  w.cgs.push_back(mkCg(r, "sys", 0, pid));
  w.cgs.push_back(mkCg(r, "sys/a", 2, pid));
  w.cgs.push_back(mkCg(r, "sys/b", 1, pid));
  w.cgs.push_back(mkCg(r, "work", 0, pid));
  w.cgs.push_back(mkCg(r, "work/w1", 25, pid));
  {
    // the biggest swap user, so that the non-recursive kill_by_swap_usage takes
    // this cgroup (which has a child) as a whole
    Cg w2 = mkCg(r, "work/w2", 1, pid);
    w2.swap_current = int64_t(1) << 34;
    w2.swap_max = kMax;
    w.cgs.push_back(w2);
  }
  w.cgs.push_back(mkCg(r, "work/w2/c", 3, pid));
  w.cgs.push_back(mkCg(r, "work/w3", 2, pid));
  // a subtree only one, non-recursive, kill action ever looks at (fired at tick 1): its child is not
  // in oomd's cache when the kill walks down to it
  w.cgs.push_back(mkCg(r, "solo", 0, pid));
  {
    Cg s1 = mkCg(r, "solo/s1", 1, pid);
    s1.swap_current = int64_t(1) << 33;
    s1.swap_max = kMax;
    w.cgs.push_back(s1);
  }
  w.cgs.push_back(mkCg(r, "solo/s1/c", 4, pid));
  Host& h = w.host;
  h.meminfo = {{"MemTotal", 16 << 20}, {"MemFree", 4 << 20}, {"MemAvailable", 8 << 20}, {"Buffers", 1024}, {"Cached", 4096}, {"SwapCached", 0}, {"SwapTotal", 4 << 20}, {"SwapFree", 1 << 20}};
  h.vmstat = {{"nr_free_pages", 1000}, {"pgscan_kswapd", r.in(0, 100000)}, {"pgscan_direct", r.in(0, 100000)}, {"pswpin", 5}, {"pswpout", r.in(1000, 100000)}};
  h.swaps.push_back({4 << 20, 3 << 20});
  for (int i = 0; i < 3; i++) {
    h.mem_psi.some[i] = 5000;
    h.mem_psi.full[i] = 4000;
    h.io_psi.some[i] = 3000;
    h.io_psi.full[i] = 2000;
  }
  h.mem_psi.some_total = 1000;
  h.mem_psi.full_total = 900;
  h.io_psi.some_total = 1000;
  h.io_psi.full_total = 900;
  h.swappiness = 60;
  h.rotational["8:0"] = 0;
  Json::Value sc(Json::objectValue);
  sc["world"] = w.toJson();
  Json::Value cfg(Json::objectValue);
  Json::Value act = plug("vp_action", {{"id", "a"}});
  auto vdet = [&](const std::string& id) { return plug("vp_detector", {{"id", id}}); };
  // every real detector in its own ruleset
  cfg["rulesets"].append(rsOf("d_pa", plug("pressure_above", {{"cgroup", "work,sys/*"}, {"resource", "memory"}, {"threshold", "10"}, {"duration", "0"}}), {act}));
  cfg["rulesets"].append(rsOf("d_prb", plug("pressure_rising_beyond", {{"cgroup", "work/*,/"}, {"resource", "io"}, {"threshold", "5"}, {"duration", "0"}}), {act}));
  cfg["rulesets"].append(rsOf("d_ma", plug("memory_above", {{"cgroup", "work/*"}, {"threshold", "1%"}, {"duration", "0"}}), {act}));
  cfg["rulesets"].append(rsOf("d_maa", plug("memory_above", {{"cgroup", "/,sys"}, {"threshold_anon", "1M"}, {"duration", "0"}}), {act}));
  cfg["rulesets"].append(rsOf("d_mr", plug("memory_reclaim", {{"cgroup", "work/*,sys"}, {"duration", "10"}}), {act}));
  cfg["rulesets"].append(rsOf("d_sf", plug("swap_free", {{"threshold_pct", "50"}}), {act}));
  // swap is low throughout and nothing is ever swapped out (pswpout stays what it is): whatever is
  // missing from /proc/vmstat at whatever tick, a swap-out rate that is unavailable is not a swap-out
  // rate above 1 byte/s, so this ruleset's action never runs
  cfg["rulesets"].append(rsOf("d_sfr", plug("swap_free", {{"threshold_pct", "100"}, {"swapout_bps_threshold", "1"}}), {plug("vp_action", {{"id", "a_sfr"}})}));
  cfg["rulesets"].append(rsOf("d_ex", plug("exists", {{"cgroup", "work/w*"}}), {act}));
  cfg["rulesets"].append(rsOf("d_nd", plug("nr_dying_descendants", {{"cgroup", "work/*,/"}, {"count", "2"}}), {act}));
  cfg["rulesets"].append(rsOf("d_dump", plug("dump_cgroup_overview", {{"cgroup", "work/*,sys"}, {"always", "true"}}), {act}));
  // the five kill plugins, recursive and not, behind scripted detectors
  int ki = 0;
  for (auto& kp : killPlugins()) {
    Json::Value k = plug(kp, {{"cgroup", ki % 2 ? "work/*,sys" : "work,sys/*"}, {"recursive", ki % 2 ? "false" : "true"}, {"post_action_delay", "0"}});
    if (kp == "kill_by_pressure") k["args"]["resource"] = "memory";
    // ki 1 and 3 are the non-recursive ones: plain user-space kills of a
    // target together with its children (work/w2 + work/w2/c)
    if (ki == 2) k["args"]["kernelkill"] = "true";
    if (ki == 4) k["args"]["dry"] = "true";
    cfg["rulesets"].append(rsOf("k" + std::to_string(ki), vdet("d" + std::to_string(ki)), {k, plug("vp_action", {{"id", "after" + std::to_string(ki)}})}));
    ki++;
  }
  cfg["rulesets"].append(rsOf("ksolo", vdet("dsolo"), {plug("kill_by_swap_usage", {{"cgroup", "solo/*"}, {"post_action_delay", "0"}}), plug("vp_action", {{"id", "aftersolo"}})}));
  // senpai, both modes
  cfg["rulesets"].append(rsOf("senpai", vdet("ds"), {plug("senpai", {{"cgroup", "sys/*"}, {"interval", "0"}, {"limit_min_bytes", "0"}})}));
  cfg["rulesets"].append(rsOf("senpai_i", vdet("ds"), {plug("senpai", {{"cgroup", "sys/*,work/w3"}, {"interval", "0"}, {"immediate_backoff", "true"}, {"pressure_pct", "100"}, {"io_pressure_pct", "100"}, {"swap_validation", "true"}, {"modulate_swappiness", "true"}, {"limit_min_bytes", "0"}})}));
  // a ruleset-level cgroup
  {
    Json::Value rs = rsOf("percg", vdet("dc"), {plug("kill_by_memory_size_or_growth", {{"post_action_delay", "0"}})});
    rs["cgroup"] = "work/*";
    cfg["rulesets"].append(rs);
  }
  // a ruleset-level cgroup whose action parks (ASYNC_PAUSED) every time it runs; its detector fires at
  // tick 0 only. Once every matching cgroup has vanished the parked chains are gone with them:
  // cgroups re-created later start from nothing and the action never runs for them
  {
    Json::Value rs = rsOf("percg2", vdet("dc2"), {plug("vp_action", {{"id", "park2"}})});
    rs["cgroup"] = "work/*";
    cfg["rulesets"].append(rs);
  }
  // every kill plugin once more with `work/*` as its only target and a detector that fires on every tick: under
  // the `vanish` fault the plugin runs while every configured target is gone (an empty candidate set goes through
  // its ranking). Dry, so that the kills of the baseline stay what they are.
  {
    int vi = 0;
    for (auto& kp : killPlugins()) {
      Json::Value k = plug(kp, {{"cgroup", "work/*"}, {"recursive", vi % 2 ? "true" : "false"}, {"post_action_delay", "0"}, {"dry", "true"}});
      if (kp == "kill_by_pressure") k["args"]["resource"] = "io";
      cfg["rulesets"].append(rsOf("kv" + std::to_string(vi), vdet("dv"), {k, plug("vp_action", {{"id", "afterv" + std::to_string(vi)}})}));
      vi++;
    }
  }
  cfg["prekill_hooks"].append(plug("dummy_prekill_hook", {{"cgroup", "/"}}));
  sc["config"] = cfg;
  sc["interval"] = 5;
  sc["devs"]["8:0"] = "ssd";
  Json::Value ticks(Json::arrayValue), scripts(Json::objectValue);
  for (int t = 0; t < 3; t++) {
    Json::Value tick(Json::objectValue);
    tick["adv_ms"] = 5000;
    tick["ops"] = Json::Value(Json::arrayValue);
    ticks.append(tick);
  }
  for (int i = 0; i < 5; i++) {
    Json::Value s(Json::arrayValue);
    s.append(killPlugins()[i] == "kill_by_pg_scan" ? "C" : "S");
    s.append("C");
    s.append(i % 2 ? "C" : "S");
    scripts["detectors"]["d" + std::to_string(i)] = s;
  }
  scripts["detectors"]["ds"] = "C";
  scripts["detectors"]["dv"] = "C";
  scripts["detectors"]["dsolo"] = Json::Value(Json::arrayValue);
  scripts["detectors"]["dsolo"].append("S");
  scripts["detectors"]["dsolo"].append("C");
  scripts["detectors"]["dsolo"].append("S");
  scripts["detectors"]["dc"] = Json::Value(Json::arrayValue);
  scripts["detectors"]["dc"].append("S");
  scripts["detectors"]["dc"].append("C");
  scripts["detectors"]["dc"].append("S");
  scripts["detectors"]["dc2"] = Json::Value(Json::arrayValue);
  scripts["detectors"]["dc2"].append("C");
  scripts["detectors"]["dc2"].append("S");
  scripts["detectors"]["dc2"].append("S");
  scripts["actions"]["a"] = "C";
  scripts["actions"]["park2"] = "A";
  sc["ticks"] = ticks;
  sc["scripts"] = scripts;
  return sc;
}

// --------------------------------------------------------------- faults ----
// {"kind":"file","cg":..,"file":..,"mode":..,"from":tick}
// {"kind":"host","file":..,"mode":..,"from":tick}
// {"kind":"dropkey","where":"vmstat|meminfo|memory.stat","cg":..,"key":..}
// {"kind":"dt_unknown"}
// {"kind":"access","tick":t,"k":k,"cg":..,"action":"rm|recreate"}
Json::Value applyStaticFaults(const Json::Value& base, const Json::Value& faults) {
  Json::Value sc = base;
  World w = World::fromJson(sc["world"]);
  for (auto& f : faults) {
    std::string kind = f["kind"].asString();
    int from = f.get("from", 0).asInt();
    if (kind == "file" && f["mode"].asString() != "eacces") {
      Cg* c = w.find(f["cg"].asString());
      if (!c) continue;
      if (from == 0) {
        c->faults[f["file"].asString()] = f["mode"].asString();
      } else {
        Op op;
        op.op = "set";
        op.cg = *c;
        op.cg.pids.clear();
        op.cg.faults[f["file"].asString()] = f["mode"].asString();
        sc["ticks"][from]["ops"].append(op.toJson());
      }
    } else if (kind == "host" && f["mode"].asString() != "eacces") {
      if (from == 0) {
        w.host.faults[f["file"].asString()] = f["mode"].asString();
      } else {
        Op op;
        op.op = "host";
        op.host = w.host;
        op.host.faults[f["file"].asString()] = f["mode"].asString();
        sc["ticks"][from]["ops"].append(op.toJson());
      }
    } else if (kind == "dropkey") {
      std::string where = f["where"].asString(), key = f["key"].asString();
      auto drop = [&](std::vector<std::pair<std::string, int64_t>>& v) {
        std::vector<std::pair<std::string, int64_t>> k;
        for (auto& kv : v)
          if (kv.first != key) k.push_back(kv);
        v = k;
      };
      if (f.isMember("at")) {
        // the key is missing at that one tick only and back, unchanged, at the next
        int at = f["at"].asInt();
        int nt = (int)sc["ticks"].size();
        if (at < 1 || at >= nt) continue;
        Op without, with;
        if (where == "memory.stat") {
          Cg* c = w.find(f["cg"].asString());
          if (!c) continue;
          without.op = with.op = "set";
          without.cg = with.cg = *c;
          without.cg.pids.clear();
          with.cg.pids.clear();
          drop(without.cg.stat);
        } else {
          without.op = with.op = "host";
          without.host = with.host = w.host;
          drop(where == "vmstat" ? without.host.vmstat : without.host.meminfo);
        }
        sc["ticks"][at]["ops"].append(without.toJson());
        if (at + 1 < nt) sc["ticks"][at + 1]["ops"].append(with.toJson());
        continue;
      }
      if (where == "vmstat") drop(w.host.vmstat);
      if (where == "meminfo") drop(w.host.meminfo);
      if (where == "memory.stat") {
        Cg* c = w.find(f["cg"].asString());
        if (c) drop(c->stat);
      }
    } else if (kind == "dt_unknown") {
      sc["dt_unknown"] = true;
    } else if (kind == "vanish") {
      // every child of `prefix` is removed before tick `at` and re-created (same specs) before the next
      int at = f["at"].asInt();
      std::string prefix = f["prefix"].asString();
      // one more quiet tick at the end: a chain that wrongly survived needs a second sample to act
      {
        Json::Value tick(Json::objectValue);
        tick["adv_ms"] = 5000;
        tick["ops"] = Json::Value(Json::arrayValue);
        sc["ticks"].append(tick);
        for (auto& id : sc["scripts"]["detectors"].getMemberNames())
          if (sc["scripts"]["detectors"][id].isArray()) sc["scripts"]["detectors"][id].append("S");
      }
      int nt = (int)sc["ticks"].size();
      if (at < 1 || at >= nt) continue;
      std::vector<Cg> subtree;
      for (auto& c : w.cgs)
        if (c.path != prefix && w.isDescendantOrSelf(prefix, c.path)) subtree.push_back(c);
      for (auto* ch : w.children(prefix)) {
        Op rm;
        rm.op = "rm";
        rm.path = ch->path;
        sc["ticks"][at]["ops"].append(rm.toJson());
      }
      if (at + 1 < nt)
        for (auto& c : subtree) {
          Op mk;
          mk.op = "mk";
          mk.cg = c;
          sc["ticks"][at + 1]["ops"].append(mk.toJson());
        }
    }
  }
  sc["world"] = w.toJson();
  return sc;
}

std::vector<std::pair<long, std::string>> g_accessLog; // (k, path) of the last recorded tick

struct RunOut {
  RunResult R;
  long hits{0}; // how often an injected fault was actually hit
  std::vector<long> accessesPerTick;
  int nticks{0};
  std::map<int, std::vector<World>> mutated; // tick -> worlds right after a mid-tick mutation
  // identity (inode) of every cgroup path in those worlds, and at the start of each tick
  std::map<int, std::vector<std::map<std::string, uint64_t>>> mutatedIno;
  std::map<int, std::map<std::string, uint64_t>> startIno;
};

RunOut runWithFaults(const Json::Value& c) {
  const Json::Value& faults = c["faults"];
  Json::Value sc = applyStaticFaults(c["scenario"], faults);
  RunOut out;
  DaemonHooks hooks;
  std::set<std::string> done;
  hooks.on_access = [&](Sim& sim, const std::string& path, const char* kind, int tick, long k) -> AccessDecision {
    AccessDecision d;
    if (tick >= 0) {
      if ((int)out.accessesPerTick.size() <= tick) out.accessesPerTick.resize(tick + 1, 0);
      out.accessesPerTick[tick] = k;
      if (c.isMember("record_tick") && c["record_tick"].asInt() == tick) g_accessLog.emplace_back(k, relOf(sim.cgroot(), path));
    }
    for (auto& f : faults) {
      std::string fk = f["kind"].asString();
      if (fk == "access") {
        if (f["tick"].asInt() == tick && f["k"].asInt64() == k) {
          std::string key = jstr(f);
          if (done.count(key)) continue;
          done.insert(key);
          std::string cg = f["cg"].asString();
          const Cg* old = sim.world().find(cg);
          if (!old) continue;
          // keep the whole subtree's specs for a re-creation
          std::vector<Cg> sub;
          for (auto& x : sim.world().cgs)
            if (sim.world().isDescendantOrSelf(cg, x.path)) sub.push_back(x);
          Op rm;
          rm.op = "rm";
          rm.path = cg;
          sim.apply(rm);
          if (f["action"].asString() == "recreate") {
            int fresh = 900000 + (int)k * 10;
            for (auto& x : sub) {
              Op mk;
              mk.op = "mk";
              mk.cg = x;
              for (auto& p : mk.cg.pids) p = fresh++;
              sim.apply(mk);
            }
          }
          out.mutated[tick].push_back(sim.world());
          {
            std::map<std::string, uint64_t> ino;
            for (auto& x : sim.world().cgs) ino[x.path] = sim.inode(x.path);
            out.mutatedIno[tick].push_back(ino);
          }
          out.hits++;
        }
      } else if ((fk == "file" || fk == "host") && f["mode"].asString() == "eacces" && tick >= f.get("from", 0).asInt()) {
        std::string target = fk == "file" ? sim.cgroot() + (f["cg"].asString().empty() ? "" : "/" + f["cg"].asString()) + "/" + f["file"].asString()
                                          : sim.scratch() + (f["file"].asString() == "swappiness" ? "/proc/sys/vm/swappiness" : "/proc/" + f["file"].asString());
        if (path == target && (!strcmp(kind, "open") || !strcmp(kind, "fopen") || !strcmp(kind, "openw"))) {
          d.fail_errno = EACCES;
          out.hits++;
        }
      } else if (fk == "file" || fk == "host") {
        if (tick >= f.get("from", 0).asInt()) {
          std::string target = fk == "file" ? sim.cgroot() + (f["cg"].asString().empty() ? "" : "/" + f["cg"].asString()) + "/" + f["file"].asString()
                                            : sim.scratch() + (f["file"].asString() == "swappiness" ? "/proc/sys/vm/swappiness" : "/proc/" + f["file"].asString());
          if (path == target) out.hits++;
        }
      }
    }
    return d;
  };
  out.nticks = (int)sc["ticks"].size();
  hooks.on_tick = [&](Sim& sim, int t) {
    for (auto& x : sim.world().cgs) out.startIno[t][x.path] = sim.inode(x.path);
  };
  out.R = runDaemon(sc, &hooks);
  for (auto& f : faults)
    if (f["kind"].asString() == "dropkey" || f["kind"].asString() == "dt_unknown" || f["kind"].asString() == "vanish") out.hits++;
  return out;
}

// containment (C01) on the whole trace, by attempt
void checkContainment(const RunResult& R, const std::map<int, std::vector<World>>& mutated, Verdict& v, const RunOut* ro = nullptr) {
  uint64_t vino = 0;
  std::string victim;
  bool have = false;
  int vtick = -1;
  for (auto& e : R.trace) {
    if (e.k == "tick") have = false;
    if (e.k == "setxattr" && e.s == "trusted.oomd_kill_uuid") {
      victim = relOf(R.cgroot, e.p);
      have = true;
      vtick = e.tick;
      vino = (uint64_t)e.a;
      continue;
    }
    if (e.k == "kill") {
      if (e.b != 9) v.fail("signal other than SIGKILL");
      if (e.a <= 0) v.fail("kill() with non-positive pid " + std::to_string(e.a));
      if (!have || vtick < 0 || vtick >= (int)R.worlds.size()) {
        v.fail("process " + std::to_string(e.a) + " signalled outside any announced victim (tick " + std::to_string(e.tick) + ")");
        continue;
      }
      // the processes of the victim's subtree in every state of the tick in which the path still names
      // the cgroup that was selected (same identity): a cgroup re-created under the path later in the
      // tick is another cgroup, it was never selected
      std::vector<int> sub;
      auto sameIdentity = [&](const std::map<std::string, uint64_t>* ino) {
        if (!ino || vino == 0) return true;
        auto it = ino->find(victim);
        return it == ino->end() || it->second == 0 || it->second == vino;
      };
      {
        const std::map<std::string, uint64_t>* si = nullptr;
        if (ro && ro->startIno.count(vtick)) si = &ro->startIno.at(vtick);
        if (sameIdentity(si)) sub = R.worlds[vtick].subtreePids(victim);
      }
      auto mi = mutated.find(vtick);
      if (mi != mutated.end())
        for (size_t k = 0; k < mi->second.size(); k++) {
          const std::map<std::string, uint64_t>* ino = nullptr;
          if (ro && ro->mutatedIno.count(vtick) && k < ro->mutatedIno.at(vtick).size()) ino = &ro->mutatedIno.at(vtick)[k];
          if (!sameIdentity(ino)) continue;
          auto more = mi->second[k].subtreePids(victim);
          sub.insert(sub.end(), more.begin(), more.end());
        }
      if (e.a > 0 && std::find(sub.begin(), sub.end(), (int)e.a) == sub.end()) {
        v.fail("pid " + std::to_string(e.a) + " signalled but not listed under victim '" + victim + "' at the start of tick " + std::to_string(vtick));
      }
    }
    if (e.k == "write") {
      std::string file = baseOfFile(e.p);
      if (file == "cgroup.kill" || file == "cgroup.freeze") {
        std::string dir = dirOfFile(R.cgroot, e.p);
        if (!have || dir != victim) v.fail(file + " of '" + dir + "' written while the victim is '" + (have ? victim : std::string("<none>")) + "'");
      }
    }
  }
}

Verdict judge(const Json::Value& c) {
  Verdict v;
  if (const char* dump = getenv("VP_C10_DUMP"))
    if (c["faults"].size() == 1 && c["faults"][0]["kind"].asString() == dump) jsave(std::string("/tmp/c10-") + dump + "-" + c["faults"][0].get("prefix", "x").asString() + ".json", c);
  RunOut o = runWithFaults(c);
  if (!o.R.config_ok) {
    // a fault present from tick 0 may legitimately make init fail (e.g. no
    // MemTotal): a clean rejection, not a crash
    v.labels.push_back("init_rejected");
    return v;
  }
  if (!o.R.exception.empty()) {
    v.fail(o.R.exception + " under faults " + jstr(c["faults"]));
    return v;
  }
  if (o.R.ticks_run != o.nticks) {
    v.fail("main loop stopped after " + std::to_string(o.R.ticks_run) + " ticks");
    return v;
  }
  checkContainment(o.R, o.mutated, v, &o);
  for (auto& e : o.R.trace)
    if (v.ok && e.k == "plugin" && e.s == "run" && e.s2 == "a_sfr")
      v.fail("swap_free saw a swap-out rate of at least 1 byte/s at tick " + std::to_string(e.tick) + " although pswpout never changed (a statistic that is unavailable must not be reported as a value)");
  for (auto& f : c["faults"]) {
    if (f["kind"].asString() != "vanish" || f["prefix"].asString() != "work") continue;
    for (auto& e : o.R.trace)
      if (v.ok && e.k == "plugin" && e.s == "run" && e.s2 == "park2" && e.tick > f["at"].asInt())
        v.fail("the parked action of ruleset percg2 ran at tick " + std::to_string(e.tick) + " for a cgroup re-created after every match of work/* had vanished at tick " + std::to_string(f["at"].asInt()) + " (its detector fired at tick 0 only: the chain must be dropped with the cgroup)");
  }
  if (!v.ok) v.why += " under faults " + jstr(c["faults"]);
  if (o.hits > 0) v.nontrivial = true;
  for (auto& f : c["faults"]) v.labels.push_back("fault_" + f["kind"].asString());
  bool killed = false;
  for (auto& e : o.R.trace)
    if (e.k == "kill" && e.ret == 0) killed = true;
  if (killed) v.labels.push_back("kill_happened");
  return v;
}

long recordAccesses(const Json::Value& base, int tick) {
  Json::Value c(Json::objectValue);
  c["scenario"] = base;
  c["faults"] = Json::Value(Json::arrayValue);
  c["record_tick"] = tick;
  g_accessLog.clear();
  RunOut o = runWithFaults(c);
  return tick < (int)o.accessesPerTick.size() ? o.accessesPerTick[tick] : 0;
}

// A-D for one baseline
std::vector<Json::Value> enumerate(uint64_t bseed) {
  std::vector<Json::Value> out;
  Json::Value base = baseline(bseed);
  auto add = [&](const Json::Value& fault) {
    // the scenario (the same for every case of a baseline) is filled in by expand() when the case runs
    Json::Value c(Json::objectValue);
    c["faults"].append(fault);
    c["baseline"] = (Json::UInt64)bseed;
    out.push_back(c);
  };
  for (auto& role : kRoles)
    for (auto& file : kFiles)
      for (auto& mode : kModes)
        for (int from : {0, 1}) {
          Json::Value f(Json::objectValue);
          f["kind"] = "file";
          f["cg"] = role;
          f["file"] = file;
          f["mode"] = mode;
          f["from"] = from;
          add(f);
        }
  for (auto& hf : kHostFiles)
    for (auto& mode : kModes)
      for (int from : {0, 1}) {
        Json::Value f(Json::objectValue);
        f["kind"] = "host";
        f["file"] = hf;
        f["mode"] = mode;
        f["from"] = from;
        add(f);
      }
  World w = World::fromJson(base["world"]);
  for (auto& kv : w.host.vmstat) {
    Json::Value f(Json::objectValue);
    f["kind"] = "dropkey";
    f["where"] = "vmstat";
    f["key"] = kv.first;
    add(f);
    f["at"] = 1;
    add(f);
  }
  for (auto& kv : w.host.meminfo) {
    Json::Value f(Json::objectValue);
    f["kind"] = "dropkey";
    f["where"] = "meminfo";
    f["key"] = kv.first;
    add(f);
    f["at"] = 1;
    add(f);
  }
  for (auto& role : kRoles) {
    const Cg* c = w.find(role);
    for (auto& kv : c->stat) {
      Json::Value f(Json::objectValue);
      f["kind"] = "dropkey";
      f["where"] = "memory.stat";
      f["cg"] = role;
      f["key"] = kv.first;
      add(f);
      f["at"] = 1;
      add(f);
    }
  }
  {
    Json::Value f(Json::objectValue);
    f["kind"] = "dt_unknown";
    add(f);
  }
  for (const char* prefix : {"work", "sys"}) {
    Json::Value f(Json::objectValue);
    f["kind"] = "vanish";
    f["prefix"] = prefix;
    f["at"] = 1;
    add(f);
    out.back()["always"] = true;
  }
  long n = recordAccesses(base, 1);
  // the kill walk over the solo subtree: re-creation of its target at every access that touches the subtree
  // (never sampled away in the quick tier)
  for (auto& kp : g_accessLog) {
    if (kp.second.compare(0, 4, "solo") != 0) continue;
    for (const char* action : {"rm", "recreate"}) {
      Json::Value f(Json::objectValue);
      f["kind"] = "access";
      f["tick"] = 1;
      f["k"] = (Json::Int64)kp.first;
      f["cg"] = "solo/s1";
      f["action"] = action;
      add(f);
      out.back()["always"] = true;
    }
  }
  for (long k = 1; k <= n; k++)
    for (auto& role : kRoles) {
      if (role.empty()) continue;
      for (const char* action : {"rm", "recreate"}) {
        Json::Value f(Json::objectValue);
        f["kind"] = "access";
        f["tick"] = 1;
        f["k"] = (Json::Int64)k;
        f["cg"] = role;
        f["action"] = action;
        add(f);
      }
    }
  return out;
}

Json::Value gen() {
  using namespace vpgen;
  uint64_t bseed = (uint64_t)R(0, 200);
  Json::Value c(Json::objectValue);
  Json::Value base = baseline(bseed);
  c["scenario"] = base;
  c["baseline"] = (Json::UInt64)bseed;
  World w = World::fromJson(base["world"]);
  int nf = W({35, 30, 20, 15}) + 1;
  for (int i = 0; i < nf; i++) {
    Json::Value f(Json::objectValue);
    int kind = W({40, 15, 15, 5, 25});
    std::vector<std::string> roles = kRoles;
    roles.push_back("sys");
    roles.push_back("sys/a");
    roles.push_back("work/w3");
    if (kind == 0) {
      f["kind"] = "file";
      f["cg"] = oneOf(roles);
      f["file"] = oneOf(kFiles);
      f["mode"] = oneOf(kModes);
      f["from"] = R(0, 2);
    } else if (kind == 1) {
      f["kind"] = "host";
      f["file"] = oneOf(kHostFiles);
      f["mode"] = oneOf(kModes);
      f["from"] = R(0, 2);
    } else if (kind == 2) {
      f["kind"] = "dropkey";
      int wh = R(0, 2);
      if (wh == 0) {
        f["where"] = "vmstat";
        f["key"] = w.host.vmstat[R(0, (int)w.host.vmstat.size() - 1)].first;
      } else if (wh == 1) {
        f["where"] = "meminfo";
        f["key"] = w.host.meminfo[R(0, (int)w.host.meminfo.size() - 1)].first;
      } else {
        f["where"] = "memory.stat";
        std::string cg = oneOf(roles);
        f["cg"] = cg;
        const Cg* cc = w.find(cg);
        f["key"] = cc->stat[R(0, (int)cc->stat.size() - 1)].first;
      }
      if (P(50)) f["at"] = R(1, 2);
    } else if (kind == 3) {
      f["kind"] = "dt_unknown";
    } else {
      f["kind"] = "access";
      f["tick"] = R(0, 2);
      f["k"] = R(1, 1500);
      std::string cg = oneOf(roles);
      if (cg.empty()) cg = "work";
      f["cg"] = cg;
      f["action"] = P(50) ? "rm" : "recreate";
    }
    c["faults"].append(f);
  }
  return c;
}

} // namespace

int main(int argc, char** argv) {
  HarnessDef d;
  d.prop = "C10";
  d.gen = gen;
  d.run = judge;
  d.fixed = []() {
    std::vector<Json::Value> all;
    int nb = getenv("VP_C10_BASELINES") ? atoi(getenv("VP_C10_BASELINES")) : 1;
    for (int b = 0; b < nb; b++) {
      auto e = enumerate((uint64_t)b);
      all.insert(all.end(), e.begin(), e.end());
    }
    return all;
  };
  d.expand = [](Json::Value& c) {
    static std::map<uint64_t, Json::Value> bases;
    if (c.isMember("scenario")) return;
    uint64_t b = c["baseline"].asUInt64();
    auto it = bases.find(b);
    if (it == bases.end()) it = bases.emplace(b, baseline(b)).first;
    c["scenario"] = it->second;
  };
  return harnessMain(argc, argv, d);
}
