// C11 Ruleset-level cgroup: one independent, persistent instance per matching
// cgroup (DESIGN.md §C11). Oracle: EngineModel per instance, instance set from
// the world model (GlobModel + xattr filter), prerun once per tick per instance.
#include "core.h"
#include "enginemodel.h"
#include "gen_common.h"
#include "models.h"

using namespace vp;
using namespace vpgen;

// the tag attribute counts by its presence: its value may be anything, also empty (`setfattr -n name dir`)
static std::string tagValue() {
  return P(35) ? std::string() : std::string("1");
}
using namespace vpe;

static const char* kTag = "user.vp_tag";

static std::vector<std::string> candidates() {
  return {"p/c0", "p/c1", "p/c2", "q/c0", "q/c1", "p/d0"};
}

static Cg plainCg(const std::string& path) {
  Cg c;
  c.path = path;
  c.stat = {{"anon", 0}, {"file", 0}, {"pgscan", 0}};
  return c;
}

static Json::Value pluginJson(const char* name, const std::string& id) {
  Json::Value p(Json::objectValue);
  p["name"] = name;
  p["args"]["id"] = id;
  return p;
}

static Json::Value gen() {
  Json::Value sc(Json::objectValue);
  auto cands = candidates();
  int nticks = R(4, 12);
  bool filter = P(40);
  // initial world
  World w;
  w.cgs.push_back(plainCg(""));
  w.cgs.push_back(plainCg("p"));
  w.cgs.push_back(plainCg("q"));
  std::map<std::string, bool> exists, tagged;
  for (auto& c : cands) {
    exists[c] = P(60);
    tagged[c] = P(60);
    if (exists[c]) {
      Cg cg = plainCg(c);
      if (tagged[c]) cg.xattrs[kTag] = tagValue();
      w.cgs.push_back(cg);
    }
  }
  WorldGen wg;
  wg.genHost();
  w.host = wg.w.host;
  sc["world"] = w.toJson();
  // config: the cgroup ruleset plus (sometimes) an ordinary one before/after it
  Json::Value cfg(Json::objectValue);
  Json::Value scripts(Json::objectValue);
  auto genRs = [&](const std::string& name, bool withCgroup, const std::string& pre) {
    Json::Value rs(Json::objectValue);
    rs["name"] = name;
    int ng = R(1, 2);
    std::vector<std::string> keys = {""};
    if (withCgroup) keys = cands;
    for (int j = 0; j < ng; j++) {
      Json::Value dg(Json::arrayValue);
      dg.append("g" + std::to_string(j));
      int nd = R(1, 2);
      for (int k = 0; k < nd; k++) {
        std::string id = pre + "g" + std::to_string(j) + "d" + std::to_string(k);
        dg.append(pluginJson("vp_detector", id));
        for (auto& key : keys)
          for (int t = 0; t < nticks; t++) scripts["detectors"][key.empty() ? id : id + "@" + key].append(W({65, 35}) == 0 ? "C" : "S");
      }
      rs["detectors"].append(dg);
    }
    int na = R(1, 3);
    for (int k = 0; k < na; k++) {
      std::string id = pre + "a" + std::to_string(k);
      Json::Value aj = pluginJson("vp_action", id);
      if (withCgroup && P(25)) aj["args"]["cgroup"] = "own/" + id; // names its own target
      rs["actions"].append(aj);
      for (auto& key : keys)
        for (int t = 0; t < nticks; t++) {
          Json::Value e(Json::objectValue);
          int c = W({45, 30, 25});
          e["r"] = c == 0 ? "C" : c == 1 ? "S" : "A";
          if (c == 1 && P(30)) e["pause"] = R(0, 10);
          scripts["actions"][key.empty() ? id : id + "@" + key].append(e);
        }
    }
    if (P(60)) rs["post_action_delay"] = std::to_string(R(0, 12));
    return rs;
  };
  cfg["rulesets"] = Json::Value(Json::arrayValue);
  if (P(30)) cfg["rulesets"].append(genRs("plain0", false, "x"));
  Json::Value crs = genRs("cg", true, "c");
  crs["cgroup"] = oneOf(std::vector<std::string>{"p/*", "*/c0", "*/*", "p/c?", "q/c1", "p/c*"});
  if (filter) crs["xattr_filter"] = kTag;
  cfg["rulesets"].append(crs);
  if (P(30)) cfg["rulesets"].append(genRs("plain1", false, "y"));
  sc["config"] = cfg;
  sc["interval"] = 5;
  // history
  Json::Value ticks(Json::arrayValue);
  for (int t = 0; t < nticks; t++) {
    Json::Value tick(Json::objectValue);
    tick["adv_ms"] = R(1, 6) * 1000 + subsecMs();
    Json::Value ops(Json::arrayValue);
    if (t > 0) {
      for (auto& c : cands) {
        int k = W({62, 14, 14, 10});
        if (k == 1 && exists[c]) {
          Op op;
          op.op = "rm";
          op.path = c;
          ops.append(op.toJson());
          exists[c] = false;
        } else if (k == 2 && !exists[c]) {
          Op op;
          op.op = "mk";
          op.cg = plainCg(c);
          tagged[c] = P(60);
          if (tagged[c]) op.cg.xattrs[kTag] = tagValue();
          ops.append(op.toJson());
          exists[c] = true;
        } else if (k == 3 && exists[c] && filter) {
          Op op;
          op.op = "set";
          op.cg = plainCg(c);
          tagged[c] = !tagged[c];
          if (tagged[c]) op.cg.xattrs[kTag] = tagValue();
          ops.append(op.toJson());
        }
      }
    }
    tick["ops"] = ops;
    ticks.append(tick);
  }
  sc["ticks"] = ticks;
  sc["scripts"] = scripts;
  // kernfs-style 64-bit cgroup identities (generation in the upper half, slot recycled per path)
  if (P(25)) sc["virt_ino"] = true;
  return sc;
}

static RsSpec specOf(const Json::Value& rs) {
  RsSpec s;
  s.name = rs["name"].asString();
  for (auto& dg : rs["detectors"]) {
    GroupSpec g;
    g.name = dg[0].asString();
    for (Json::ArrayIndex i = 1; i < dg.size(); i++) g.dets.push_back(dg[i]["args"]["id"].asString());
    s.groups.push_back(g);
  }
  for (auto& a : rs["actions"]) s.actions.push_back(a["args"]["id"].asString());
  if (rs.isMember("post_action_delay")) s.delay = atoi(rs["post_action_delay"].asCString());
  if (rs.isMember("prekill_hook_timeout")) s.hook_timeout = atoi(rs["prekill_hook_timeout"].asCString());
  return s;
}

static Verdict run(const Json::Value& sc) {
  Verdict v;
  RunResult R = runDaemon(sc);
  if (!R.config_ok) {
    v.fail("valid configuration rejected: " + R.config_error);
    return v;
  }
  if (!R.exception.empty()) {
    v.fail(R.exception);
    return v;
  }
  auto script = scriptsOf(sc["scripts"]);
  int nticks = sc["ticks"].size();
  struct RsInfo {
    RsSpec spec;
    bool cg{false};
    std::string pattern, filter;
    std::map<std::string, RsState> inst; // key -> state ("" for plain rulesets)
    std::set<std::string> ids;
  };
  std::vector<RsInfo> rss;
  std::map<std::string, int> rsOfId;
  for (auto& rs : sc["config"]["rulesets"]) {
    RsInfo ri;
    ri.spec = specOf(rs);
    ri.cg = rs.isMember("cgroup");
    ri.pattern = rs.get("cgroup", "").asString();
    ri.filter = rs.get("xattr_filter", "").asString();
    for (auto& g : ri.spec.groups)
      for (auto& d : g.dets) ri.ids.insert(d);
    for (auto& a : ri.spec.actions) ri.ids.insert(a);
    for (auto& id : ri.ids) rsOfId[id] = (int)rss.size();
    rss.push_back(ri);
  }
  int next_chain = 1;
  std::map<int, std::string> chainUuid;
  std::set<std::string> usedUuid;
  for (int t = 0; t < nticks && v.ok; t++) {
    int64_t now = R.tick_ms[t];
    const World& w = R.worlds[t];
    std::string at = " at tick " + std::to_string(t);
    // observed run events grouped by (ruleset, key)
    std::map<std::pair<int, std::string>, std::vector<const Ev*>> obs;
    std::map<int64_t, std::pair<int, std::string>> serialInst; // object serial -> instance
    std::multiset<int64_t> prerunSerials;
    for (auto& e : R.trace) {
      if (e.k != "plugin" || e.tick != t) continue;
      if (e.s == "prerun") prerunSerials.insert(e.a);
      if (e.s != "run") continue;
      auto it = rsOfId.find(e.s2);
      if (it == rsOfId.end()) continue;
      std::string key = e.j["rcg"].isNull() ? "" : e.j["rcg"].asString();
      obs[{it->second, key}].push_back(&e);
      serialInst[e.a] = {it->second, key};
    }
    size_t discardedNow = 0, surviving = 0;
    for (size_t i = 0; i < rss.size(); i++) {
      auto& ri = rss[i];
      std::set<std::string> keys;
      if (!ri.cg) {
        keys.insert("");
      } else {
        for (auto& p : vpm::globResolve(w, ri.pattern)) {
          const Cg* c = w.find(p);
          if (!c) continue;
          if (!ri.filter.empty() && !c->xattrs.count(ri.filter)) continue;
          keys.insert(p);
        }
        // discard state of instances that do not exist in this tick
        for (auto it = ri.inst.begin(); it != ri.inst.end();) {
          if (!keys.count(it->first)) {
            it = ri.inst.erase(it);
            discardedNow++;
          } else {
            surviving++;
            ++it;
          }
        }
      }
      // instances observed but not expected
      for (auto& kv : obs) {
        if (kv.first.first == (int)i && !keys.count(kv.first.second)) {
          v.fail("ruleset " + ri.spec.name + " was evaluated for '" + kv.first.second + "' which is not a matching cgroup" + at);
        }
      }
      for (auto& key : keys) {
        std::vector<Expect> exp;
        stepRuleset(ri.spec, ri.inst[key], key, t, now, script, next_chain, exp);
        auto& o = obs[{(int)i, key}];
        std::string who = ri.spec.name + (key.empty() ? "" : "[" + key + "]");
        size_t n = std::min(exp.size(), o.size());
        for (size_t k = 0; k < n && v.ok; k++) {
          if (exp[k].id != o[k]->s2) {
            v.fail(who + " call #" + std::to_string(k) + at + ": expected run of " + exp[k].id + ", observed " + o[k]->s2);
            break;
          }
          if (!exp[k].action) continue;
          const Json::Value& a = o[k]->j["actx"];
          if (a["dg"].asString() != exp[k].dg) v.fail(who + " action " + exp[k].id + " saw detector group '" + a["dg"].asString() + "', expected '" + exp[k].dg + "'" + at);
          if (a["ruleset"].asString() != ri.spec.name) v.fail(who + " action saw ruleset '" + a["ruleset"].asString() + "'" + at);
          if (a["deadline_ms"].isNull() || a["deadline_ms"].asInt64() != exp[k].deadline_ms) v.fail(who + " action " + exp[k].id + " saw prekill deadline " + jstr(a["deadline_ms"]) + ", expected " + std::to_string(exp[k].deadline_ms) + at);
          if (ri.cg) {
            if (a["target"].isNull() || a["target"].asString() != key) v.fail(who + " action context target is " + jstr(a["target"]) + at);
            std::string own;
            for (auto& aj : sc["config"]["rulesets"][(int)i]["actions"])
              if (aj["args"]["id"].asString() == exp[k].id) own = aj["args"].get("cgroup", "").asString();
            if (o[k]->j.get("cgarg", "").asString() != (own.empty() ? key : own)) v.fail(who + " action " + exp[k].id + " was initialised with cgroup='" + o[k]->j.get("cgarg", "").asString() + "'" + at);
          }
          std::string uuid = a["uuid"].asString();
          auto cu = chainUuid.find(exp[k].chain);
          if (cu == chainUuid.end()) {
            if (usedUuid.count(uuid)) v.fail(who + " run uuid reused by a new chain" + at);
            chainUuid[exp[k].chain] = uuid;
            usedUuid.insert(uuid);
          } else if (cu->second != uuid) {
            v.fail(who + " action " + exp[k].id + " resumed with a different run uuid" + at);
          }
        }
        if (v.ok && exp.size() != o.size()) {
          if (exp.size() > o.size()) {
            v.fail(who + " missing call" + at + ": expected run of " + exp[n].id + " after " + std::to_string(n) + " calls");
          } else {
            v.fail(who + " unexpected call" + at + ": run of " + o[n]->s2 + " after " + std::to_string(n) + " expected calls");
          }
        }
      }
    }
    // prerun: every plugin object that ran this tick got exactly one prerun
    for (auto& kv : serialInst) {
      size_t n = prerunSerials.count(kv.first);
      if (n != 1 && v.ok) {
        auto& ri = rss[kv.second.first];
        v.fail("plugin object of " + ri.spec.name + (kv.second.second.empty() ? "" : "[" + kv.second.second + "]") + " received prerun " + std::to_string(n) + " times" + at);
      }
    }
    if (discardedNow >= 1 && surviving >= 1) v.nontrivial = true;
    if (discardedNow >= 2) v.labels.push_back("multi_discard");
    if (discardedNow >= 1) v.labels.push_back("discard");
  }
  return v;
}

int main(int argc, char** argv) {
  HarnessDef d;
  d.prop = getenv("VP_PROP") ? getenv("VP_PROP") : "C11"; // also a sub-campaign of C06 (per-cgroup instances pausing)
  d.gen = gen;
  d.run = run;
  return harnessMain(argc, argv, d);
}
