// C12 A configuration is either rejected cleanly or honoured exactly
// (DESIGN.md §C12) - sub-checks (b) IR over the core plugins and (c) size /
// percent / number strings against an exact SizeModel. (a) is c12_fuzz.cpp,
// (d) runs the real binary from the driver.
#include "core.h"
#include "gen_common.h"

#include "oomd/config/ConfigCompiler.h"
#include "oomd/config/ConfigTypes.h"
#include "oomd/config/JsonConfigParser.h"
#include "oomd/util/Util.h"

#include <fcntl.h>
#include <sys/stat.h>
#include <unistd.h>
#include <thread>
#include "oomd/OomdContext.h"
#include "oomd/dropin/FsDropInService.h"
#include "oomd/engine/Engine.h"

using namespace vp;
using namespace vpgen;
using u128 = unsigned __int128;

namespace {

// ------------------------------------------------------------ SizeModel ----
// exact value of a structured size: components (int digits, frac digits, unit)
struct Comp {
  std::string ip, fp; // decimal digits
  int unit; // 0 none, 1 K, 2 M, 3 G, 4 T
};
const u128 kSat = (u128)1 << 120;

u128 digitsToInt(const std::string& d) {
  u128 v = 0;
  for (char c : d) {
    v = v * 10 + (c - '0');
    if (v > kSat) v = kSat;
  }
  return v;
}
// floor of the exact sum, saturating; also reports whether it is below 2^63
struct Exact {
  u128 floor_;
  bool fits; // floor < 2^63
  bool integral;
};
Exact exactOf(const std::vector<Comp>& cs) {
  // common denominator 10^18 (fractions are generated with <= 18 digits)
  u128 num = 0; // in units of 10^-18 bytes, saturating
  const u128 D = (u128)1000000000000000000ULL;
  bool sat = false;
  for (auto& c : cs) {
    u128 ip = digitsToInt(c.ip.empty() ? "0" : c.ip);
    std::string f = c.fp;
    while (f.size() < 18) f += '0';
    u128 fp = digitsToInt(f.substr(0, 18));
    u128 mul = (u128)1 << (10 * c.unit);
    if (ip >= ((u128)1 << 64)) {
      sat = true;
      continue;
    }
    u128 whole = ip * mul; // < 2^104
    if (whole >= ((u128)1 << 66)) {
      sat = true;
      continue;
    }
    num += whole * D + fp * mul; // < 2^66*2^60 + 2^60*2^40
  }
  Exact e;
  if (sat) {
    e.floor_ = kSat;
    e.fits = false;
    e.integral = true;
    return e;
  }
  e.floor_ = num / D;
  e.integral = (num % D) == 0;
  e.fits = e.floor_ < ((u128)1 << 63);
  return e;
}

std::string render(const std::vector<Comp>& cs, bool upper, const std::string& sep) {
  std::string s;
  static const char* U = " kmgt";
  for (size_t i = 0; i < cs.size(); i++) {
    if (i) s += sep;
    s += cs[i].ip;
    if (!cs[i].fp.empty()) s += "." + cs[i].fp;
    if (cs[i].unit) s += upper ? (char)toupper(U[cs[i].unit]) : U[cs[i].unit];
  }
  return s;
}

std::string digits(int n, bool nonzeroFirst) {
  std::string d;
  for (int i = 0; i < n; i++) d += (char)('0' + (i == 0 && nonzeroFirst ? R(1, 9) : R(0, 9)));
  return d;
}

// {"sub":"size","text":..,"class":"valid|invalid|dontcare","comps":[[ip,fp,unit]..]}
Json::Value genSize() {
  Json::Value c(Json::objectValue);
  c["sub"] = "size";
  std::vector<Comp> cs;
  int n = W({60, 30, 10}) + 1;
  for (int i = 0; i < n; i++) {
    Comp k;
    int cls = W({55, 25, 12, 8});
    if (cls == 0) k.ip = std::to_string(R(0, 4096));
    if (cls == 1) k.ip = digits(R(5, 13), true);
    if (cls == 2) k.ip = digits(R(14, 19), true);
    if (cls == 3) k.ip = digits(R(20, 30), true);
    int f = W({60, 15, 10, 15});
    if (f == 1) k.fp = "5";
    if (f == 2) k.fp = "25";
    if (f == 3) k.fp = digits(R(1, 6), false);
    // a component without unit only in last position (otherwise two numbers
    // would run together once blanks are ignored)
    k.unit = (i == n - 1) ? R(0, 4) : R(1, 4);
    cs.push_back(k);
  }
  bool upper = P(50);
  std::string sep = P(70) ? " " : "";
  std::string text = render(cs, upper, sep);
  std::string cls = "valid";
  int mut = W({55, 45});
  if (mut == 1) {
    int m = R(0, 13);
    cls = "invalid";
    switch (m) {
      case 0:
        text = "";
        cls = "dontcare"; // rejected one level up (parseSizeOrPercent / plugin argument)
        break;
      case 1:
        text += oneOf(std::vector<std::string>{"x", "!", "_", "#", "b"});
        break;
      case 2:
        text = oneOf(std::vector<std::string>{"nan", "inf", "-inf", "infinity", "NaN", "nanK", "infG", "1nan"});
        break;
      case 3:
        text = oneOf(std::vector<std::string>{"k", "M5", "G 1", "t"}) + text;
        break;
      case 4:
        text = digits(R(20, 40), true) + oneOf(std::vector<std::string>{"", "K", "T", "G"});
        break;
      case 5:
        text = oneOf(std::vector<std::string>{"1e30", "1e19K", "1e400", "5e20T"});
        break;
      case 6:
        text = oneOf(std::vector<std::string>{"1..5K", "1.2.3M", "--5", "+-123M", "5-3", "1,5K"});
        break;
      case 7:
        text = "??";
        break;
      case 8:
        text = "0x" + text;
        cls = "dontcare";
        break;
      case 9:
        text = (P(50) ? "+" : "-") + text;
        cls = "dontcare";
        break;
      case 10:
        text = oneOf(std::vector<std::string>{"1e3", "2E2K", "1.5e1M"});
        cls = "dontcare";
        break;
      case 11:
        text = oneOf(std::vector<std::string>{".5K", "5.K", " 5K", "5K ", "1 0K", "\t5M"});
        cls = "dontcare";
        break;
      case 12:
        text = std::string("9223372036854775808"); // 2^63
        break;
      case 13:
        text = oneOf(std::vector<std::string>{"8388608T", "9007199254740992K", "8589934592G"}); // == 2^63
        break;
    }
  }
  c["text"] = text;
  c["class"] = cls;
  Json::Value jc(Json::arrayValue);
  for (auto& k : cs) {
    Json::Value e(Json::arrayValue);
    e.append(k.ip);
    e.append(k.fp);
    e.append(k.unit);
    jc.append(e);
  }
  c["comps"] = jc;
  return c;
}

// {"sub":"pct","text":..,"total":..,"class":..,"expect":bytes}
Json::Value genPct() {
  Json::Value c(Json::objectValue);
  c["sub"] = "pct";
  int64_t total = P(20) ? 0 : R64(0, int64_t(1) << 55);
  c["total"] = (Json::Int64)total;
  int form = W({35, 30, 35});
  if (form == 0) {
    int n = P(70) ? R(0, 100) : R(-20, 400);
    std::string text = std::to_string(n) + "%";
    std::string cls = (n >= 0 && n <= 100) ? "valid" : "invalid";
    int mut = W({70, 30});
    if (mut == 1) {
      int m = R(0, 5);
      if (m == 0) text = std::to_string(n) + "x%", cls = "invalid";
      if (m == 1) text = "%", cls = "invalid";
      if (m == 2) text = "abc%", cls = "invalid";
      if (m == 3) text = std::to_string(n) + ".5%", cls = "dontcare";
      if (m == 4) text = " " + text, cls = "dontcare";
      if (m == 5) text = std::to_string(n) + "%%", cls = "invalid";
    }
    c["text"] = text;
    c["class"] = cls;
    c["expect"] = (Json::Int64)((__int128)total * n / 100);
  } else if (form == 1) {
    // a bare number is megabytes
    int cls = W({60, 25, 15});
    std::string d = cls == 0 ? std::to_string(R64(0, 1 << 20)) : cls == 1 ? digits(R(7, 13), true) : digits(R(14, 22), true);
    u128 v = digitsToInt(d);
    bool fits = v < ((u128)1 << 43);
    c["text"] = d;
    c["class"] = fits ? "valid" : "invalid";
    c["expect"] = fits ? (Json::Int64)((int64_t)v << 20) : (Json::Int64)0;
  } else {
    Json::Value s = genSize();
    // a lone unitless component would be read as megabytes: force a unit
    c = s;
    c["sub"] = "pct";
    c["total"] = (Json::Int64)total;
    c["viaSize"] = true;
    bool unitless = true;
    for (auto& k : s["comps"])
      if (k[2].asInt() != 0) unitless = false;
    if (unitless && s["class"].asString() == "valid") c["class"] = "dontcare";
  }
  return c;
}

// ------------------------------------------------------------- IR cases ----
struct ArgSpec {
  const char* name;
  const char* type; // int uint float bool resource size cgroup str
  bool required;
};
struct PluginSpec {
  const char* name;
  bool detector;
  std::vector<ArgSpec> args;
};
const std::vector<PluginSpec>& table() {
  // transcribed from docs/core_plugins.md
  static const std::vector<PluginSpec> t = {
      {"pressure_rising_beyond", true, {{"cgroup", "cgroup", false}, {"resource", "resource", true}, {"threshold", "int", true}, {"duration", "int", true}, {"fast_fall_ratio", "float", false}}},
      {"pressure_above", true, {{"cgroup", "cgroup", false}, {"resource", "resource", true}, {"threshold", "int", true}, {"duration", "int", true}}},
      {"memory_above", true, {{"cgroup", "cgroup", false}, {"threshold", "size", true}, {"duration", "int", true}}},
      {"memory_reclaim", true, {{"cgroup", "cgroup", false}, {"duration", "int", true}}},
      {"swap_free", true, {{"threshold_pct", "int", true}}},
      {"exists", true, {{"cgroup", "cgroup", false}, {"negate", "bool", false}}},
      {"nr_dying_descendants", true, {{"cgroup", "cgroup", false}, {"count", "uint", true}, {"lte", "bool", false}}},
      {"dump_cgroup_overview", true, {{"cgroup", "cgroup", false}, {"always", "bool", false}}},
      {"kill_by_memory_size_or_growth", false, {{"cgroup", "cgroup", false}, {"recursive", "bool", false}, {"size_threshold", "uint", false}, {"min_growth_ratio", "float", false}, {"growing_size_percentile", "uint", false}, {"post_action_delay", "uint", false}, {"dry", "bool", false}, {"always_continue", "bool", false}, {"reap_memory", "bool", false}}},
      {"kill_by_swap_usage", false, {{"cgroup", "cgroup", false}, {"recursive", "bool", false}, {"threshold", "size", false}, {"post_action_delay", "uint", false}, {"dry", "bool", false}, {"always_continue", "bool", false}, {"reap_memory", "bool", false}}},
      {"kill_by_pressure", false, {{"cgroup", "cgroup", false}, {"recursive", "bool", false}, {"resource", "resource", true}, {"post_action_delay", "uint", false}, {"dry", "bool", false}, {"always_continue", "bool", false}, {"reap_memory", "bool", false}}},
      {"kill_by_io_cost", false, {{"cgroup", "cgroup", false}, {"recursive", "bool", false}, {"post_action_delay", "uint", false}, {"dry", "bool", false}, {"always_continue", "bool", false}, {"reap_memory", "bool", false}}},
      {"kill_by_pg_scan", false, {{"cgroup", "cgroup", false}, {"recursive", "bool", false}, {"post_action_delay", "uint", false}, {"dry", "bool", false}, {"always_continue", "bool", false}, {"reap_memory", "bool", false}}},
      {"systemd_restart", false, {{"service", "str", true}, {"post_action_delay", "uint", false}, {"dry", "bool", false}}},
      {"continue", false, {}},
      {"stop", false, {}},
  };
  return t;
}

std::string validValue(const std::string& type) {
  if (type == "int") return std::to_string(R(0, 100));
  if (type == "uint") return std::to_string(R(0, 99));
  if (type == "float") return oneOf(std::vector<std::string>{"0.85", "1.25", "2", "0.5", "1"});
  if (type == "bool") return oneOf(std::vector<std::string>{"true", "false", "True", "False", "1", "0"});
  if (type == "resource") return P(50) ? "io" : "memory";
  if (type == "size") return oneOf(std::vector<std::string>{"10%", "512", "1.5G", "1G 128M", "4K 2048", "100%", "0%", "32k"});
  if (type == "cgroup") return oneOf(std::vector<std::string>{"system.slice", "workload.slice/workload-*.slice,system.slice", "/", "a/b/c"});
  return "foo.service";
}
// a value with no valid reading in the argument's type
std::string invalidValue(const std::string& type) {
  if (type == "int" || type == "uint") return oneOf(std::vector<std::string>{"abc", "", "12abc", "99999999999999999999", "nan", "--1", "1 2", "0x", type == "uint" ? "-1" : "4294967296000"});
  if (type == "float") return oneOf(std::vector<std::string>{"abc", "", "1.5x", "nan", "inf", "-inf", "1e999", "1,5"});
  if (type == "bool") return oneOf(std::vector<std::string>{"yes", "2", "", "maybe", "-1", "tru"});
  if (type == "resource") return oneOf(std::vector<std::string>{"cpu", "", "mem", "io,memory"});
  if (type == "size") return oneOf(std::vector<std::string>{"", "abc", "101%", "-1%", "12x%", "nan", "inf", "1..5G", "5GG", "99999999999999999999999", "1e30", "9999999999999999M"});
  if (type == "str") return "";
  return "";
}

Json::Value pluginIR(const PluginSpec& p) {
  Json::Value j(Json::objectValue);
  j["name"] = p.name;
  j["args"] = Json::Value(Json::objectValue);
  for (auto& a : p.args) {
    if (a.required || P(40)) j["args"][a.name] = validValue(a.type);
  }
  return j;
}

Json::Value genIR() {
  Json::Value c(Json::objectValue);
  c["sub"] = "ir";
  std::vector<const PluginSpec*> dets, acts;
  for (auto& p : table()) (p.detector ? dets : acts).push_back(&p);
  Json::Value rs(Json::objectValue);
  rs["name"] = "r";
  int ng = R(1, 2);
  std::vector<std::pair<std::string, const PluginSpec*>> slots; // json path tags
  for (int g = 0; g < ng; g++) {
    Json::Value dg(Json::objectValue);
    dg["name"] = "g" + std::to_string(g);
    int nd = R(1, 2);
    for (int d = 0; d < nd; d++) {
      const PluginSpec* p = oneOf(dets);
      dg["detectors"].append(pluginIR(*p));
      slots.emplace_back("d" + std::to_string(g) + "." + std::to_string(d), p);
    }
    rs["dgs"].append(dg);
  }
  int na = R(1, 3);
  for (int a = 0; a < na; a++) {
    const PluginSpec* p = oneOf(acts);
    rs["acts"].append(pluginIR(*p));
    slots.emplace_back("a" + std::to_string(a), p);
  }
  if (P(40)) rs["post_action_delay"] = std::to_string(R(0, 60));
  if (P(30)) rs["prekill_hook_timeout"] = std::to_string(R(0, 60));
  if (P(30)) rs["silence_logs"] = oneOf(std::vector<std::string>{"engine", "plugins", "engine,plugins", " engine , plugins "});
  std::string defect = "none";
  std::string expect = "accept";
  int k = W({30, 4, 4, 4, 5, 10, 8, 18, 4, 6, 4, 3});
  auto pickSlot = [&]() { return R(0, (int)slots.size() - 1); };
  auto slotRef = [&](int si) -> Json::Value& {
    const std::string& tag = slots[si].first;
    if (tag[0] == 'd') {
      int g = tag[1] - '0', d = tag[3] - '0';
      return rs["dgs"][g]["detectors"][d];
    }
    return rs["acts"][tag[1] - '0'];
  };
  if (k == 1) {
    rs["name"] = "";
    defect = "unnamed ruleset";
  } else if (k == 2) {
    rs["dgs"][0]["name"] = "";
    defect = "unnamed detector group";
  } else if (k == 3) {
    slotRef(pickSlot())["name"] = "";
    defect = "unnamed plugin";
  } else if (k == 4) {
    slotRef(pickSlot())["name"] = oneOf(std::vector<std::string>{"no_such_plugin", "Kill_by_pressure", "pressure_above ", "senpai2"});
    defect = "unknown plugin";
  } else if (k == 5) {
    // missing required argument (only those nothing else can supply)
    std::vector<int> cand;
    for (size_t i = 0; i < slots.size(); i++)
      for (auto& a : slots[i].second->args)
        if (a.required) cand.push_back((int)i);
    if (!cand.empty()) {
      int si = oneOf(cand);
      std::vector<std::string> req;
      for (auto& a : slots[si].second->args)
        if (a.required) req.push_back(a.name);
      std::string victim = oneOf(req);
      slotRef(si)["args"].removeMember(victim);
      defect = "missing required argument " + victim + " of " + slots[si].second->name;
    }
  } else if (k == 6) {
    // (continue / stop are undocumented no-ops that ignore their arguments)
    std::vector<int> cand;
    for (size_t i = 0; i < slots.size(); i++)
      if (!slots[i].second->args.empty()) cand.push_back((int)i);
    if (!cand.empty()) {
      slotRef(oneOf(cand))["args"][oneOf(std::vector<std::string>{"bogus_arg", "Cgroup", "thresholdd", "x"})] = "1";
      defect = "unknown argument";
    }
  } else if (k == 7) {
    std::vector<int> cand;
    for (size_t i = 0; i < slots.size(); i++)
      for (auto& a : slots[i].second->args)
        if (std::string(a.type) != "cgroup") cand.push_back((int)i);
    if (!cand.empty()) {
      int si = oneOf(cand);
      std::vector<const ArgSpec*> as;
      for (auto& a : slots[si].second->args)
        if (std::string(a.type) != "cgroup") as.push_back(&a);
      const ArgSpec* a = oneOf(as);
      std::string bad = invalidValue(a->type);
      slotRef(si)["args"][a->name] = bad;
      defect = std::string("invalid value '") + bad + "' for " + a->type + " argument " + a->name + " of " + slots[si].second->name;
    }
  } else if (k == 8) {
    rs["silence_logs"] = oneOf(std::vector<std::string>{"engines", "plugin", "engine;plugins", "all"});
    defect = "bad silence-logs";
  } else if (k == 9) {
    std::string bad = oneOf(std::vector<std::string>{"abc", "-1", "1x", "99999999999", "nan", " "});
    rs[P(50) ? "post_action_delay" : "prekill_hook_timeout"] = bad;
    defect = "bad ruleset delay '" + bad + "'";
  } else if (k == 10) {
    rs["dgs"][0]["detectors"] = Json::Value(Json::arrayValue);
    defect = "detector group without detectors";
  } else if (k == 11) {
    rs["acts"] = Json::Value(Json::arrayValue);
    defect = "ruleset without actions";
  }
  if (defect != "none") expect = "reject";
  c["ruleset"] = rs;
  c["defect"] = defect;
  c["expect"] = expect;
  return c;
}

// {"sub":"order","plugins":[{"kind":"d|a","args":{..}}..]}: scripted plugins
// must be instantiated in configuration order with exactly their arguments
Json::Value genOrder() {
  Json::Value c(Json::objectValue);
  c["sub"] = "order";
  int nrs = R(1, 3);
  int id = 0;
  for (int r = 0; r < nrs; r++) {
    Json::Value rs(Json::objectValue);
    rs["name"] = "r" + std::to_string(r);
    int ng = R(1, 2);
    for (int g = 0; g < ng; g++) {
      Json::Value dg(Json::objectValue);
      dg["name"] = "g" + std::to_string(g);
      int nd = R(1, 3);
      for (int d = 0; d < nd; d++) {
        Json::Value p(Json::objectValue);
        p["name"] = "vp_detector";
        p["args"]["id"] = "p" + std::to_string(id++);
        int na = R(0, 3);
        for (int a = 0; a < na; a++) p["args"]["k" + std::to_string(R(0, 5))] = oneOf(std::vector<std::string>{"", "1", "9223372036854775807", "1.25", " x ", "a,b", "\"q\"", "-0", "1e308"});
        dg["detectors"].append(p);
      }
      rs["dgs"].append(dg);
    }
    int na = R(1, 3);
    for (int a = 0; a < na; a++) {
      Json::Value p(Json::objectValue);
      p["name"] = "vp_action";
      p["args"]["id"] = "p" + std::to_string(id++);
      if (P(50)) p["args"]["v"] = oneOf(std::vector<std::string>{"18446744073709551615", "0.1", "x y", "true"});
      rs["acts"].append(p);
    }
    c["rulesets"].append(rs);
  }
  return c;
}

// {"sub":"json","doc":{...oomd config...},"expect":"accept|reject","defect":..}: a valid
// JSON configuration in which one plugin argument value gets a wrong shape
Json::Value genJsonDoc() {
  Json::Value ir = genIR();
  while (ir["expect"].asString() != "accept") ir = genIR();
  const Json::Value& rs = ir["ruleset"];
  Json::Value j(Json::objectValue);
  j["name"] = rs["name"];
  for (auto& dg : rs["dgs"]) {
    Json::Value g(Json::arrayValue);
    g.append(dg["name"]);
    for (auto& d : dg["detectors"]) g.append(d);
    j["detectors"].append(g);
  }
  for (auto& a : rs["acts"]) j["actions"].append(a);
  if (rs.isMember("post_action_delay")) j["post_action_delay"] = rs["post_action_delay"];
  if (rs.isMember("silence_logs")) j["silence-logs"] = rs["silence_logs"];
  Json::Value c(Json::objectValue);
  c["sub"] = "json";
  c["expect"] = "accept";
  c["defect"] = "none";
  // plugins that have at least one argument
  std::vector<Json::Value*> withArgs;
  for (auto& g : j["detectors"])
    for (Json::ArrayIndex i = 1; i < g.size(); i++)
      if (g[i]["args"].size()) withArgs.push_back(&g[i]);
  for (auto& a : j["actions"])
    if (a["args"].size()) withArgs.push_back(&a);
  if (!withArgs.empty() && P(65)) {
    Json::Value* p = withArgs[R(0, (int)withArgs.size() - 1)];
    auto names = (*p)["args"].getMemberNames();
    std::string an = names[R(0, (int)names.size() - 1)];
    int shape = R(0, 3);
    Json::Value bad;
    if (shape == 0) bad = Json::Value(Json::arrayValue);
    if (shape == 1) {
      bad = Json::Value(Json::arrayValue);
      bad.append((*p)["args"][an]);
    }
    if (shape == 2) bad = Json::Value(Json::objectValue);
    if (shape == 3) bad = Json::Value(); // null
    (*p)["args"][an] = bad;
    c["expect"] = "reject";
    c["defect"] = "argument " + an + " of " + (*p)["name"].asString() + " is " + jstr(bad);
  } else if (j["detectors"].size() > 0 && P(35)) {
    // the shape of a detector group: [name, plugin...] - a string anywhere else is not a plugin, a
    // group without a leading name is unnamed
    Json::Value& g = j["detectors"][R(0, (int)j["detectors"].size() - 1)];
    Json::Value ng(Json::arrayValue);
    int kind = R(0, 3);
    if (kind == 0) {
      int at = R(1, (int)g.size());
      for (int i = 0; i < (int)g.size(); i++) {
        if (i == at) ng.append("stray");
        ng.append(g[i]);
      }
      if (at == (int)g.size()) ng.append("stray");
      c["defect"] = "a string at position " + std::to_string(at) + " of a detector group";
    } else if (kind == 1) {
      for (int i = 1; i < (int)g.size(); i++) ng.append(g[i]);
      c["defect"] = "a detector group without a name";
    } else if (kind == 2) {
      for (int i = 1; i < (int)g.size(); i++) ng.append(g[i]);
      ng.append(g[0]);
      c["defect"] = "the group's name after its plugins";
    } else {
      ng.append(7);
      for (int i = 1; i < (int)g.size(); i++) ng.append(g[i]);
      c["defect"] = "a number as the group's name";
    }
    g = ng;
    c["expect"] = "reject";
  } else if (!withArgs.empty() && P(50)) {
    // scalars of another JSON type are fine: numbers and booleans are documented
    Json::Value* p = withArgs[R(0, (int)withArgs.size() - 1)];
    for (auto& an : (*p)["args"].getMemberNames()) {
      std::string v = (*p)["args"][an].asString();
      if (v == "true") (*p)["args"][an] = true;
      if (v == "false") (*p)["args"][an] = false;
      bool digits = !v.empty() && v.find_first_not_of("0123456789") == std::string::npos && v.size() < 9;
      if (digits) (*p)["args"][an] = atoi(v.c_str());
    }
    c["defect"] = "scalars as JSON numbers / booleans";
  }
  c["doc"]["rulesets"].append(j);
  return c;
}

// {"sub":"typed","args":{..},"expect":{..}|null}: typed arguments through the real parser
Json::Value genTyped() {
  Json::Value c(Json::objectValue);
  c["sub"] = "typed";
  Json::Value& a = c["args"];
  a = Json::Value(Json::objectValue);
  bool valid = true;
  auto big = [&](bool allowNeg) -> std::string {
    int cls = W({25, 20, 20, 20, 15});
    int64_t v = 0;
    if (cls == 0) v = R64(0, 1000);
    if (cls == 1) v = R64(int64_t(1) << 31, int64_t(1) << 33); // just above 32 bits
    if (cls == 2) v = R64(int64_t(1) << 33, int64_t(1) << 62);
    if (cls == 3) v = P(50) ? INT64_MAX : INT64_MAX - R64(0, 1000);
    if (cls == 4) v = (int64_t(1) << R(31, 62)) + R64(-2, 2);
    if (allowNeg && P(25)) v = -v;
    return std::to_string(v);
  };
  if (P(70)) a["l"] = big(true);
  if (P(70)) a["ms"] = big(false);
  if (P(60)) a["i"] = std::to_string(P(80) ? R64(-2147483647, 2147483647) : (P(50) ? R64(2147483648LL, int64_t(1) << 40) : -R64(2147483649LL, int64_t(1) << 40)));
  if (P(50)) a["u"] = std::to_string(R64(0, 2147483647));
  if (P(60)) {
    std::string d = std::to_string(R64(0, 1000000)) + "." + digits(R(1, 12), false);
    if (P(20)) d = "-" + d;
    if (P(15)) d += "e" + std::to_string(R(-20, 20));
    a["d"] = d;
  }
  bool rangeDefect = false, underflow = false, noJson = false;
  if (P(60)) {
    // float arguments: ordinary values, values near the end of the float range, finite doubles outside the float
    // range (must be rejected: no valid reading in the argument's type), and values that underflow a float (the
    // property does not say whether these are rejected or read as the nearest float: don't-care)
    int cls = W({64, 12, 16, 8});
    if (cls == 0) a["f"] = std::to_string(R(0, 1000)) + "." + digits(R(1, 6), false);
    if (cls == 1) a["f"] = oneOf(std::vector<std::string>{"3.4e38", "1.5e38", "-3.4e38", "1e-30", "3.0e+38", "16777217"});
    if (cls == 2) {
      a["f"] = oneOf(std::vector<std::string>{"3.5e38", "1e39", "-1e200", "1e308", "3.41e38", "-3.5e38", "4e38"});
      rangeDefect = true;
    }
    if (cls == 3) {
      a["f"] = oneOf(std::vector<std::string>{"1e-60", "1e-46", "-1e-300"});
      underflow = true;
    }
  }
  if (a.isMember("d") && P(8)) {
    // beyond the double range: must be rejected; not written as a bare JSON number (the JSON reader has its own say)
    a["d"] = oneOf(std::vector<std::string>{"1e400", "-1e999", "1.8e308"});
    rangeDefect = true;
    noJson = true;
  }
  if (P(40)) a["b"] = oneOf(std::vector<std::string>{"true", "false", "True", "False", "1", "0"});
  if (P(40)) a["s"] = oneOf(std::vector<std::string>{"", "x", " 1.5G ", "9223372036854775807"});
  if (P(40)) a["r"] = P(50) ? "io" : "memory";
  if (a.isMember("i")) {
    long long iv = atoll(a["i"].asCString());
    if (iv > 2147483647LL || iv < -2147483648LL) valid = false;
  }
  if (rangeDefect) valid = false;
  c["valid"] = valid;
  c["underflow"] = underflow && valid;
  // the same values written as bare JSON numbers / booleans in a configuration
  // document ("threshold": 80.5): the text of the number must reach the plugin
  c["via_json"] = P(35) && !noJson;
  return c;
}


// {"sub":"dropin","files":[{"name","text","when":"pre|rt","expect":"accept|reject|dontcare","marker"}]}:
// drop-in documents delivered through the real FsDropInService - present at
// start-up (loaded synchronously by create()) or written while the watcher
// thread runs. A valid document gets a wrong-shaped value at a generated
// position; whatever the loader decides, nothing may escape and the rest of
// the engine stays as it was.
void collectNodes(Json::Value& v, std::vector<Json::Value*>& out) {
  out.push_back(&v);
  if (v.isArray())
    for (auto& x : v) collectNodes(x, out);
  if (v.isObject())
    for (auto& k : v.getMemberNames()) collectNodes(v[k], out);
}
Json::Value genDropinRt() {
  Json::Value c(Json::objectValue);
  c["sub"] = "dropin";
  int n = R(1, 4);
  for (int i = 0; i < n; i++) {
    Json::Value f(Json::objectValue);
    std::string marker = "m" + std::to_string(i);
    f["name"] = "f" + std::to_string(i);
    f["marker"] = marker;
    f["when"] = P(50) ? "pre" : "rt";
    Json::Value doc(Json::objectValue), r(Json::objectValue), dg(Json::arrayValue), d(Json::objectValue);
    r["name"] = "b0";
    dg.append("g");
    d["name"] = "vp_detector";
    d["args"]["id"] = marker;
    dg.append(d);
    r["detectors"].append(dg);
    if (P(40)) {
      Json::Value a(Json::objectValue);
      a["name"] = "vp_action";
      a["args"]["id"] = "a_" + marker;
      r["actions"].append(a);
    }
    if (P(30)) r["post_action_delay"] = "0";
    if (P(30)) r["silence-logs"] = "engine";
    if (P(20)) r["prekill_hook_timeout"] = "5";
    doc["rulesets"].append(r);
    int k = W({25, 50, 25});
    if (k == 0) {
      f["expect"] = "accept";
      f["text"] = jstr(doc);
    } else if (k == 1) {
      std::vector<Json::Value*> nodes;
      collectNodes(doc, nodes);
      Json::Value* at = nodes[R(0, (int)nodes.size() - 1)];
      Json::Value orig = *at, bad;
      switch (R(0, 8)) {
        case 0:
          bad = Json::Value();
          break;
        case 1:
          bad = 3;
          break;
        case 2:
          bad = -1.5;
          break;
        case 3:
          bad = "yes";
          break;
        case 4:
          bad = true;
          break;
        case 5:
          bad = Json::Value(Json::arrayValue);
          break;
        case 6:
          bad = Json::Value(Json::arrayValue);
          bad.append(orig);
          break;
        case 7:
          bad = Json::Value(Json::objectValue);
          break;
        default:
          bad = Json::Value(Json::objectValue);
          bad["a"] = orig;
      }
      *at = bad;
      f["expect"] = "dontcare";
      f["text"] = jstr(doc);
    } else {
      static const std::vector<std::string> shapes = {
          "[1,2,3]",
          "{\"rulesets\":[3]}",
          "{\"rulesets\":[{\"name\":{\"x\":1},\"detectors\":[[\"g\",{\"name\":\"vp_detector\",\"args\":{\"id\":\"@\"}}]]}]}",
          "{\"rulesets\":[{\"name\":\"b0\",\"drop-in\":\"yes\",\"detectors\":[[\"g\",{\"name\":\"vp_detector\",\"args\":{\"id\":\"@\"}}]]}]}",
          "{\"rulesets\":[{\"name\":\"b0\",\"silence-logs\":[\"engine\"],\"detectors\":[[\"g\",{\"name\":\"vp_detector\",\"args\":{\"id\":\"@\"}}]]}]}",
          "{\"rulesets\":[{\"name\":\"b0\",\"post_action_delay\":{\"a\":1},\"detectors\":[[\"g\",{\"name\":\"vp_detector\",\"args\":{\"id\":\"@\"}}]]}]}",
          "{\"rulesets\":[{\"name\":\"b0\",\"detectors\":[[\"g\",5]]}]}",
          "{\"rulesets\":[{\"name\":\"b0\",\"detectors\":[[\"g\",{\"name\":\"vp_detector\",\"args\":{\"id\":[\"@\"]}}]]}]}",
          "{\"rulesets\":[{\"name\":\"b0\",\"detectors\":[[\"g\",{\"name\":\"vp_detector\",\"args\":{\"id\":\"@\"}},{\"name\":\"pressure_above\",\"args\":{\"cgroup\":\"x\",\"resource\":\"memory\",\"threshold\":\"80\",\"duration\":\"5\",\"nosuch\":\"1\"}}]]}]}",
          "{\"rulesets\":[{\"name\":\"b0\",\"detectors\":[[\"g\",{\"name\":\"vp_detector\",\"args\":{\"id\":\"@\"}},{\"name\":\"pressure_above\",\"args\":{\"cgroup\":\"x\",\"resource\":\"memory\",\"threshold\":\"80\"}}]]}]}",
          "{\"rulesets\":[{\"name\":\"b0\",\"detectors\":[[\"g\",{\"name\":\"no_such_plugin\",\"args\":{\"id\":\"@\"}}]]}]}",
          // several rulesets, one of them naming a base that does not exist: refused as a whole
          "{\"rulesets\":[{\"name\":\"b0\",\"detectors\":[[\"g\",{\"name\":\"vp_detector\",\"args\":{\"id\":\"@\"}}]]},{\"name\":\"no_such_base\",\"detectors\":[[\"g\",{\"name\":\"vp_detector\",\"args\":{\"id\":\"a_@\"}}]]}]}",
          "{\"rulesets\":[{\"name\":\"no_such_base\",\"detectors\":[[\"g\",{\"name\":\"vp_detector\",\"args\":{\"id\":\"a_@\"}}]]},{\"name\":\"b0\",\"detectors\":[[\"g\",{\"name\":\"vp_detector\",\"args\":{\"id\":\"@\"}}]]}]}",
          "{\"rulesets\":[{\"name\":\"b0\",\"detectors\":[[\"g\",{\"name\":\"vp_detector\",\"args\":{\"id\":\"@\"}}]]",
      };
      std::string t = oneOf(shapes);
      for (auto pos = t.find('@'); pos != std::string::npos; pos = t.find('@')) t.replace(pos, 1, marker);
      f["expect"] = "reject";
      f["text"] = t;
    }
    c["files"].append(f);
  }
  return c;
}

Json::Value gen() {
  int k = W({26, 15, 26, 8, 9, 9, 7});
  if (k == 6) return genDropinRt();
  if (k == 0) return genSize();
  if (k == 1) return genPct();
  if (k == 2) return genIR();
  if (k == 3) return genOrder();
  if (k == 4) return genJsonDoc();
  return genTyped();
}

// ----------------------------------------------------------------- run -----
Oomd::Config2::IR::Plugin toPlugin(const Json::Value& j) {
  Oomd::Config2::IR::Plugin p;
  p.name = j["name"].asString();
  for (auto& k : j["args"].getMemberNames()) p.args[k] = j["args"][k].asString();
  return p;
}
Oomd::Config2::IR::Ruleset toRuleset(const Json::Value& rs) {
  Oomd::Config2::IR::Ruleset r;
  r.name = rs["name"].asString();
  for (auto& dg : rs["dgs"]) {
    Oomd::Config2::IR::DetectorGroup g;
    g.name = dg["name"].asString();
    for (auto& d : dg["detectors"]) {
      Oomd::Config2::IR::Detector x;
      static_cast<Oomd::Config2::IR::Plugin&>(x) = toPlugin(d);
      g.detectors.push_back(x);
    }
    r.dgs.push_back(g);
  }
  for (auto& a : rs["acts"]) {
    Oomd::Config2::IR::Action x;
    static_cast<Oomd::Config2::IR::Plugin&>(x) = toPlugin(a);
    r.acts.push_back(x);
  }
  r.silence_logs = rs.get("silence_logs", "").asString();
  r.post_action_delay = rs.get("post_action_delay", "").asString();
  r.prekill_hook_timeout = rs.get("prekill_hook_timeout", "").asString();
  return r;
}

void prepare() {
  auto& P_ = Process::get();
  Sim& sim = *P_.sim;
  g.active = false;
  g.reset();
  g.scratch = sim.scratch();
  g.cgroot = sim.cgroot();
  static bool once = false;
  if (!once) {
    World w;
    Cg root;
    w.cgs.push_back(root);
    w.host.meminfo = {{"MemTotal", 16 << 20}, {"MemFree", 1 << 20}, {"SwapTotal", 4 << 20}, {"SwapFree", 1 << 20}};
    w.host.vmstat = {{"pswpout", 0}};
    sim.materialize(w);
    once = true;
  }
  scripts.reset(Json::Value(Json::objectValue));
  g.active = true;
}

Verdict run(const Json::Value& c) {
  Verdict v;
  std::string sub = c["sub"].asString();
  if (sub == "size" || (sub == "pct" && c.get("viaSize", false).asBool())) {
    std::vector<Comp> cs;
    for (auto& k : c["comps"]) cs.push_back({k[0].asString(), k[1].asString(), k[2].asInt()});
    std::string text = c["text"].asString(), cls = c["class"].asString();
    int64_t out = -12345;
    int rc = sub == "size" ? Oomd::Util::parseSize(text, &out) : Oomd::Util::parseSizeOrPercent(text, &out, c["total"].asInt64());
    std::string fn = sub == "size" ? "parseSize" : "parseSizeOrPercent";
    if (rc != 0 && rc != -1) v.fail(fn + "(\"" + text + "\") returned " + std::to_string(rc));
    if (cls == "invalid") {
      if (rc == 0) v.fail(fn + " accepted \"" + text + "\" as " + std::to_string(out) + " bytes although it has no valid reading");
    } else if (cls == "valid") {
      Exact e = exactOf(cs);
      if (!e.fits) {
        if (rc == 0) v.fail(fn + " accepted \"" + text + "\" (>= 2^63 bytes) as " + std::to_string(out));
        v.labels.push_back("overflowing");
      } else {
        if (rc != 0) {
          v.fail(fn + " rejected the documented form \"" + text + "\"");
        } else {
          long double exact = (long double)e.floor_;
          long double tol = (long double)cs.size() + exact * std::ldexp(1.0L, -52);
          if (std::fabs((long double)out - exact) > tol) v.fail(fn + "(\"" + text + "\") = " + std::to_string(out) + ", exact value is " + std::to_string((uint64_t)e.floor_) + (e.integral ? "" : " and a fraction"));
        }
        v.nontrivial = cs.size() > 1 || !cs[0].fp.empty();
      }
    }
    v.labels.push_back("size_" + cls);
    return v;
  }
  if (sub == "pct") {
    std::string text = c["text"].asString(), cls = c["class"].asString();
    int64_t total = c["total"].asInt64();
    int64_t out = -12345;
    int rc = Oomd::Util::parseSizeOrPercent(text, &out, total);
    if (cls == "invalid" && rc == 0) v.fail("parseSizeOrPercent accepted \"" + text + "\" as " + std::to_string(out) + " although it has no valid reading");
    if (cls == "valid") {
      int64_t exp = c["expect"].asInt64();
      if (rc != 0) {
        v.fail("parseSizeOrPercent rejected the documented form \"" + text + "\"");
      } else if (out != exp && out != exp + 1) {
        v.fail("parseSizeOrPercent(\"" + text + "\", total=" + std::to_string(total) + ") = " + std::to_string(out) + ", expected " + std::to_string(exp));
      }
      v.nontrivial = true;
    }
    v.labels.push_back("pct_" + cls);
    return v;
  }
  prepare();
  Oomd::PluginConstructionContext pcc(g.cgroot);
  if (sub == "ir") {
    Oomd::Config2::IR::Root root;
    root.rulesets.push_back(toRuleset(c["ruleset"]));
    std::string expect = c["expect"].asString();
    std::string what = c["defect"].asString();
    bool accepted = false;
    try {
      auto engine = Oomd::Config2::compile(root, pcc);
      accepted = engine != nullptr;
    } catch (const std::exception& e) {
      v.fail(std::string("compile() threw ") + e.what() + " (" + what + ")");
    }
    if (v.ok) {
      if (expect == "accept" && !accepted) v.fail("valid configuration rejected: " + jstr(c["ruleset"]));
      if (expect == "reject" && accepted) v.fail("configuration accepted despite: " + what);
    }
    // the same ruleset as a drop-in against a permissive base
    if (v.ok) {
      Oomd::Config2::IR::Root base;
      Oomd::Config2::IR::Ruleset b;
      b.name = c["ruleset"]["name"].asString().empty() ? "r" : c["ruleset"]["name"].asString();
      Oomd::Config2::IR::DetectorGroup g0;
      g0.name = "g";
      Oomd::Config2::IR::Detector d0;
      d0.name = "vp_detector";
      g0.detectors.push_back(d0);
      b.dgs.push_back(g0);
      Oomd::Config2::IR::Action a0;
      a0.name = "vp_action";
      b.acts.push_back(a0);
      b.dropin.detectorgroups_enabled = true;
      b.dropin.actiongroup_enabled = true;
      base.rulesets.push_back(b);
      try {
        auto unit = Oomd::Config2::compileDropIn(base, root, pcc);
        bool acc = unit.has_value();
        // drop-ins may omit detectors/actions; an unnamed ruleset cannot name its target
        bool structural = what == "detector group without detectors" ? true : false;
        if (expect == "accept" && !acc) v.fail("valid drop-in rejected: " + jstr(c["ruleset"]));
        if (expect == "reject" && acc && what != "ruleset without actions" && !structural) v.fail("drop-in accepted despite: " + what);
      } catch (const std::exception& e) {
        v.fail(std::string("compileDropIn() threw ") + e.what() + " (" + what + ")");
      }
    }
    v.nontrivial = expect == "reject";
    v.labels.push_back(expect == "reject" ? "ir_one_defect" : "ir_valid");
    g.active = false;
    return v;
  }
  if (sub == "typed") {
    Oomd::Config2::IR::Root root;
    Json::Value rs(Json::objectValue);
    rs["name"] = "r";
    Json::Value dg(Json::objectValue);
    dg["name"] = "g";
    Json::Value p(Json::objectValue);
    p["name"] = "vp_typed";
    p["args"] = c["args"];
    dg["detectors"].append(p);
    rs["dgs"].append(dg);
    Json::Value a(Json::objectValue);
    a["name"] = "vp_action";
    a["args"]["id"] = "a";
    rs["acts"].append(a);
    root.rulesets.push_back(toRuleset(rs));
    size_t mark = g.trace.size();
    bool accepted = false;
    bool viaJson = c.get("via_json", false).asBool();
    try {
      if (viaJson) {
        std::string args;
        for (auto& k : c["args"].getMemberNames()) {
          std::string val = c["args"][k].asString();
          bool bare = k == "l" || k == "ms" || k == "i" || k == "u" || k == "d" || k == "f" || (k == "b" && (val == "true" || val == "false"));
          args += (args.empty() ? "" : ",") + std::string("\"") + k + "\":" + (bare ? val : jstr(Json::Value(val)));
        }
        std::string text = "{\"rulesets\":[{\"name\":\"r\",\"detectors\":[[\"g\",{\"name\":\"vp_typed\",\"args\":{" + args +
            "}}]],\"actions\":[{\"name\":\"vp_action\",\"args\":{\"id\":\"a\"}}]}]}";
        Oomd::Config2::JsonConfigParser parser;
        auto ir = parser.parse(text);
        accepted = ir && Oomd::Config2::compile(*ir, pcc) != nullptr;
      } else {
        accepted = Oomd::Config2::compile(root, pcc) != nullptr;
      }
    } catch (const std::exception& e) {
      v.fail(std::string(viaJson ? "parse() / compile() threw " : "compile() threw ") + e.what());
    }
    const Ev* ev = nullptr;
    for (size_t i = mark; i < g.trace.size(); i++)
      if (g.trace[i].k == "plugin" && g.trace[i].s == "typed_init") ev = &g.trace[i];
    bool valid = c["valid"].asBool();
    bool underflow = c.get("underflow", false).asBool();
    if (v.ok && valid && !accepted && !underflow) v.fail("valid typed arguments rejected: " + jstr(c["args"]));
    if (v.ok && !valid && accepted) v.fail("an argument outside the range of its type (int, float or double) was accepted: " + jstr(c["args"]));
    if (v.ok && valid && ev && accepted) {
      const Json::Value& a2 = c["args"];
      auto bad = [&](const std::string& name, const std::string& got) {
        v.fail("argument " + name + "=" + a2[name].asString() + " arrived in the plugin as " + got);
      };
      if (a2.isMember("l") && ev->j["l"].asInt64() != atoll(a2["l"].asCString())) bad("l", jstr(ev->j["l"]));
      if (a2.isMember("ms") && ev->j["ms"].asInt64() != atoll(a2["ms"].asCString())) bad("ms", jstr(ev->j["ms"]));
      if (a2.isMember("i") && ev->j["i"].asInt64() != atoll(a2["i"].asCString())) bad("i", jstr(ev->j["i"]));
      if (a2.isMember("u") && ev->j["u"].asInt64() != atoll(a2["u"].asCString())) bad("u", jstr(ev->j["u"]));
      if (a2.isMember("d") && ev->j["d"].asDouble() != strtod(a2["d"].asCString(), nullptr)) bad("d", jstr(ev->j["d"]));
      if (a2.isMember("f") && !underflow) {
        float got = (float)ev->j["f"].asDouble(), want = strtof(a2["f"].asCString(), nullptr);
        // through a JSON number the text passes a double first: one float ulp of double rounding
        bool same = got == want || (viaJson && (got == std::nextafterf(want, INFINITY) || got == std::nextafterf(want, -INFINITY)));
        if (!same) bad("f", jstr(ev->j["f"]));
      }
      if (a2.isMember("s") && ev->j["s"].asString() != a2["s"].asString()) bad("s", jstr(ev->j["s"]));
      if (a2.isMember("r") && ev->j["r"].asString() != a2["r"].asString()) bad("r", jstr(ev->j["r"]));
      if (a2.isMember("b")) {
        std::string b = a2["b"].asString();
        bool want = b == "true" || b == "True" || b == "1";
        if (ev->j["b"].asBool() != want) bad("b", jstr(ev->j["b"]));
      }
    }
    v.nontrivial = c["args"].isMember("l") || c["args"].isMember("ms") || c["args"].isMember("d");
    v.labels.push_back(viaJson ? "typed_json_numbers" : "typed");
    g.active = false;
    return v;
  }
  if (sub == "dropin") {
    auto& P_ = Process::get();
    Sim& sim = *P_.sim;
    // two threads run oomd code: the shim stays passive (as in the C14 harness)
    g.active = false;
    g.reset();
    g.scratch = sim.scratch();
    g.cgroot = sim.cgroot();
    g.vclock = false;
    Json::Value sj(Json::objectValue);
    sj["detectors"]["*"] = "C";
    sj["actions"]["*"] = "C";
    scripts.reset(sj);
    std::string dir = P_.base + "/dropins12";
    std::string cmd = "rm -rf '" + dir + "' && mkdir -p '" + dir + "'";
    if (system(cmd.c_str()) != 0) {
    }
    auto put = [&](const std::string& name, const std::string& text) {
      std::string tmp = P_.base + "/dropin12.tmp";
      int fd = ::open(tmp.c_str(), O_WRONLY | O_CREAT | O_TRUNC, 0644);
      if (fd < 0) return;
      if (::write(fd, text.data(), text.size()) < 0) {
      }
      ::close(fd);
      ::rename(tmp.c_str(), (dir + "/" + name).c_str());
    };
    Json::Value base(Json::objectValue);
    for (const char* bn : {"b0", "b1"}) {
      Json::Value r(Json::objectValue), dg(Json::arrayValue), d(Json::objectValue), a(Json::objectValue);
      r["name"] = bn;
      r["drop-in"]["detectors"] = true;
      r["drop-in"]["actions"] = true;
      dg.append("g");
      d["name"] = "vp_detector";
      d["args"]["id"] = std::string("base_") + bn;
      dg.append(d);
      r["detectors"].append(dg);
      a["name"] = "vp_action";
      a["args"]["id"] = std::string("act_") + bn;
      r["actions"].append(a);
      r["post_action_delay"] = "0";
      base["rulesets"].append(r);
    }
    for (auto& f : c["files"])
      if (f["when"].asString() == "pre") put(f["name"].asString(), f["text"].asString());
    bool anyReject = false, anyMutated = false, anyRt = false;
    try {
      Oomd::Config2::JsonConfigParser parser;
      auto ir = parser.parse(jstr(base));
      auto engine = Oomd::Config2::compile(*ir, pcc);
      if (!engine) {
        v.fail("base configuration of the drop-in sub-check does not compile");
        return v;
      }
      Oomd::OomdContext ctx;
      auto svc = Oomd::FsDropInService::create(sim.cgroot(), *ir, *engine, dir);
      if (!svc) {
        v.fail("FsDropInService::create failed");
        return v;
      }
      auto tick = [&]() {
        size_t mark;
        {
          std::lock_guard<std::recursive_mutex> l(g.mu);
          mark = g.trace.size();
        }
        svc->updateDropIns();
        ctx.refresh();
        engine->prerun(ctx);
        engine->runOnce(ctx);
        std::vector<std::string> ids;
        std::lock_guard<std::recursive_mutex> l(g.mu);
        for (size_t i = mark; i < g.trace.size(); i++)
          if (g.trace[i].k == "plugin" && g.trace[i].s == "run") ids.push_back(g.trace[i].s2);
        return ids;
      };
      tick();
      for (auto& f : c["files"])
        if (f["when"].asString() == "rt") {
          put(f["name"].asString(), f["text"].asString());
          anyRt = true;
        }
      // fence: a valid drop-in for b1 written last is picked up after all others
      put("zz-fence",
          "{\"rulesets\":[{\"name\":\"b1\",\"detectors\":[[\"g\",{\"name\":\"vp_detector\",\"args\":{\"id\":\"FENCE\"}}]]}]}");
      std::vector<std::string> ids;
      bool seen = false;
      int waitedTicks = 0;
      auto t0 = std::chrono::steady_clock::now();
      while (!seen) {
        ids = tick();
        waitedTicks++;
        seen = std::find(ids.begin(), ids.end(), "FENCE") != ids.end();
        if (seen) break;
        auto ms = std::chrono::duration_cast<std::chrono::milliseconds>(std::chrono::steady_clock::now() - t0).count();
        if (waitedTicks >= 600 && ms >= 3000) break;
        std::this_thread::sleep_for(std::chrono::milliseconds(2));
      }
      if (!seen) {
        v.fail("after the generated drop-ins a valid drop-in is no longer picked up (watcher wedged or dead)");
      } else {
        ids = tick();
        auto has = [&](const std::string& id) { return std::find(ids.begin(), ids.end(), id) != ids.end(); };
        for (const char* must : {"base_b0", "base_b1", "act_b1"})
          if (v.ok && !has(must)) v.fail(std::string("base plugin ") + must + " no longer runs after the drop-ins " + jstr(c["files"]));
        for (auto& f : c["files"]) {
          if (!v.ok) break;
          std::string e = f["expect"].asString(), m = f["marker"].asString();
          if (e == "reject") anyReject = true;
          if (e == "dontcare") anyMutated = true;
          if (e == "accept" && !has(m)) v.fail("valid drop-in " + f["name"].asString() + " is not active: " + f["text"].asString());
          if (e == "reject" && (has(m) || has("a_" + m))) v.fail("invalid drop-in " + f["name"].asString() + " is active: " + f["text"].asString());
        }
        // nothing but base plugins, the fence and the files' own plugins runs
        for (auto& id : ids) {
          if (!v.ok || anyMutated) break; // a mutated document may legitimately name other plugins
          bool known = id == "FENCE" || id.compare(0, 5, "base_") == 0 || id.compare(0, 4, "act_") == 0;
          for (auto& f : c["files"])
            if (id == f["marker"].asString() || id == "a_" + f["marker"].asString()) known = true;
          if (!known) v.fail("plugin " + id + " runs but belongs to no configuration given");
        }
      }
    } catch (const std::exception& e) {
      v.fail(std::string("exception escaped from drop-in loading: ") + e.what() + " files " + jstr(c["files"]));
    }
    v.nontrivial = anyReject || anyMutated;
    v.labels.push_back("dropin_service");
    if (anyRt) v.labels.push_back("dropin_at_run_time");
    if (anyMutated) v.labels.push_back("dropin_wrong_shape_position");
    g.active = false;
    return v;
  }
  if (sub == "json") {
    bool accepted = false;
    std::string how;
    try {
      Oomd::Config2::JsonConfigParser parser;
      auto ir = parser.parse(jstr(c["doc"]));
      try {
        accepted = ir && Oomd::Config2::compile(*ir, pcc) != nullptr;
      } catch (const std::exception& e) {
        v.fail(std::string("compile() threw ") + e.what());
      }
    } catch (const std::exception& e) {
      how = e.what(); // parse rejects by exception
    }
    if (v.ok) {
      if (c["expect"].asString() == "accept" && !accepted) v.fail("valid JSON configuration rejected (" + c["defect"].asString() + "): " + jstr(c["doc"]));
      if (c["expect"].asString() == "reject" && accepted) v.fail("configuration accepted although " + c["defect"].asString() + ": " + jstr(c["doc"]));
    }
    v.nontrivial = c["expect"].asString() == "reject";
    v.labels.push_back(std::string("json_") + c["expect"].asString());
    g.active = false;
    return v;
  }
  if (sub == "order") {
    Oomd::Config2::IR::Root root;
    std::vector<Json::Value> expectInit;
    for (auto& rs : c["rulesets"]) {
      root.rulesets.push_back(toRuleset(rs));
      for (auto& dg : rs["dgs"])
        for (auto& d : dg["detectors"]) expectInit.push_back(d["args"]);
      for (auto& a : rs["acts"]) expectInit.push_back(a["args"]);
    }
    size_t mark = g.trace.size();
    try {
      auto engine = Oomd::Config2::compile(root, pcc);
      if (!engine) v.fail("valid configuration of scripted plugins rejected");
      std::vector<Json::Value> seen;
      for (size_t i = mark; i < g.trace.size(); i++)
        if (g.trace[i].k == "plugin" && g.trace[i].s == "init") seen.push_back(g.trace[i].j["args"]);
      if (v.ok && seen.size() != expectInit.size()) v.fail("expected " + std::to_string(expectInit.size()) + " plugin instances, " + std::to_string(seen.size()) + " were initialised");
      for (size_t i = 0; v.ok && i < seen.size(); i++)
        if (seen[i] != expectInit[i]) v.fail("plugin #" + std::to_string(i) + " was initialised with " + jstr(seen[i]) + ", configured " + jstr(expectInit[i]));
    } catch (const std::exception& e) {
      v.fail(std::string("compile() threw ") + e.what());
    }
    v.nontrivial = expectInit.size() >= 4;
    v.labels.push_back("order");
    g.active = false;
    return v;
  }
  v.discard = true;
  return v;
}

} // namespace

int main(int argc, char** argv) {
  HarnessDef d;
  d.prop = "C12";
  d.gen = gen;
  d.run = run;
  return harnessMain(argc, argv, d);
}
