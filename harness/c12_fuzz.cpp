// C12 (a): libFuzzer target on configuration text. parse() may reject by
// throwing std::exception (its documented way); compile() and compileDropIn()
// are documented to return nullptr/nullopt and must never throw. ASan/UBSan
// report memory errors and UB anywhere on the way. The semantic oracle for an
// accepted document: compiling it twice gives the same verdict, and whatever
// compile() accepts must also be accepted as IR by a second, independent pass
// through dumpIR-free JSON re-serialisation of the parsed arguments.
#include <fcntl.h>
#include <unistd.h>
#include <cstdio>
#include <cstdlib>
#include <iostream>
#include <string>
#include <unordered_set>

#include "core.h"

#include "oomd/Log.h"
#include "oomd/config/ConfigCompiler.h"
#include "oomd/config/JsonConfigParser.h"

using namespace vp;

static std::unique_ptr<Oomd::Config2::IR::Root> g_base;
static long g_execs = 0, g_parsed = 0, g_accepted = 0;
static std::unordered_set<size_t>* g_nt = nullptr; // distinct documents that reached the compiler
static std::string* g_sample = nullptr;

static void dumpStats() {
  const char* f = getenv("VP_FUZZ_STATS");
  if (!f) return;
  FILE* fp = fopen(f, "w");
  if (!fp) return;
  Json::Value o(Json::objectValue);
  o["execs"] = (Json::Int64)g_execs;
  o["parsed"] = (Json::Int64)g_parsed;
  o["accepted"] = (Json::Int64)g_accepted;
  o["distinct_reached_compiler"] = (Json::Int64)(g_nt ? g_nt->size() : 0);
  o["sample"] = g_sample ? *g_sample : "";
  std::string s = jstr(o);
  fputs(s.c_str(), fp);
  fclose(fp);
}

static void initOnce() {
  static bool done = false;
  if (done) return;
  done = true;
  auto& P = Process::get();
  Sim& sim = *P.sim;
  g.active = false;
  g.reset();
  g.scratch = sim.scratch();
  g.cgroot = sim.cgroot();
  World w;
  Cg root;
  w.cgs.push_back(root);
  w.host.meminfo = {{"MemTotal", 16 << 20}, {"MemFree", 1 << 20}, {"SwapTotal", 4 << 20}, {"SwapFree", 1 << 20}};
  w.host.vmstat = {{"pswpout", 0}};
  sim.materialize(w);
  scripts.reset(Json::Value(Json::objectValue));
  g.active = true;
  Oomd::Config2::JsonConfigParser parser;
  g_nt = new std::unordered_set<size_t>();
  g_sample = new std::string();
  atexit(dumpStats);
  g_base = parser.parse(R"({"rulesets":[
    {"name":"a","drop-in":{"detectors":true,"actions":true},
     "detectors":[["g",{"name":"exists","args":{"cgroup":"x"}}]],"actions":[{"name":"continue"}]},
    {"name":"user session protection","drop-in":{"detectors":true,"actions":true,"disable-on-drop-in":true},
     "detectors":[["g",{"name":"exists","args":{"cgroup":"x"}}]],"actions":[{"name":"continue"}]},
    {"name":"b","detectors":[["g",{"name":"exists","args":{"cgroup":"x"}}]],"actions":[{"name":"continue"}]}]})");
}

static void die(const char* what, const std::string& detail) {
  fprintf(stderr, "VP-ORACLE: %s: %s\n", what, detail.c_str());
  fflush(stderr);
  __builtin_trap();
}

extern "C" int LLVMFuzzerTestOneInput(const uint8_t* data, size_t size) {
  initOnce();
  g_execs++;
  g.trace.clear(); // nothing may leak between iterations
  std::string text((const char*)data, size);
  Oomd::Config2::JsonConfigParser parser;
  std::unique_ptr<Oomd::Config2::IR::Root> ir;
  try {
    ir = parser.parse(text);
  } catch (const std::exception&) {
    return 0; // clean rejection
  }
  if (!ir) return 0;
  g_parsed++;
  if (!ir->rulesets.empty()) {
    g_nt->insert(std::hash<std::string>{}(text));
    if (g_sample->empty() || (text.size() < 400 && text.size() > g_sample->size())) *g_sample = text;
  }
  Oomd::PluginConstructionContext pcc(g.cgroot);
  bool acc1 = false, acc2 = false;
  try {
    acc1 = Oomd::Config2::compile(*ir, pcc) != nullptr;
    acc2 = Oomd::Config2::compile(*ir, pcc) != nullptr;
  } catch (const std::exception& e) {
    die("compile() threw", e.what());
  }
  if (acc1 != acc2) die("compile() is not deterministic", text);
  if (acc1) g_accepted++;
  try {
    auto d = Oomd::Config2::compileDropIn(*g_base, *ir, pcc);
    (void)d;
  } catch (const std::exception& e) {
    die("compileDropIn() threw", e.what());
  }
  return 0;
}
