// C13 Drop-in override semantics (DESIGN.md §C13): stateful generation of
// add / re-add / remove / failing-add sequences through DropInServiceAdaptor
// and through Engine directly; oracle = reference model after every step +
// metamorphic reversibility against a second real engine.
#include "core.h"
#include "gen_common.h"
#include "models.h"

#include "oomd/Stats.h"
#include "oomd/config/ConfigCompiler.h"
#include "oomd/config/JsonConfigParser.h"
#include "oomd/dropin/DropInServiceAdaptor.h"
#include "oomd/engine/Engine.h"
#include "oomd/include/CoreStats.h"

#include <deque>

using namespace vp;
using namespace vpgen;

namespace {

class Adaptor : public Oomd::DropInServiceAdaptor {
 public:
  using DropInServiceAdaptor::DropInServiceAdaptor;
  bool add(const std::string& tag, const Oomd::Config2::IR::Root& d) {
    return scheduleDropInAdd(tag, d);
  }
  void remove(const std::string& tag) {
    scheduleDropInRemove(tag);
  }
  std::vector<std::pair<std::string, bool>> results;

 protected:
  void tick() override {}
  void handleDropInAddResult(const std::string& tag, bool ok) override {
    results.emplace_back(tag, ok);
  }
  void handleDropInRemoveResult(const std::string&, bool) override {}
};

struct Probe {
  std::vector<std::pair<std::string, int64_t>> runs; // (id, serial) in order
  int counter{0};
  std::map<std::string, std::string> hook; // probe path -> hook id ("" none)
  std::multiset<std::string> preruns;
};

const std::vector<std::string> kProbePaths = {"a", "a/b", "c"};

struct EngineRun {
  std::unique_ptr<Oomd::Config2::IR::Root> ir;
  std::unique_ptr<Oomd::Engine::Engine> engine;
  std::unique_ptr<Adaptor> adaptor;
  Oomd::OomdContext ctx;
  std::string cgroot;
  std::string error;
  int tick{0};

  bool init(const Json::Value& base, const std::string& cgroot_) {
    cgroot = cgroot_;
    Oomd::Config2::JsonConfigParser parser;
    ir = parser.parse(jstr(base));
    Oomd::PluginConstructionContext pcc(cgroot);
    engine = Oomd::Config2::compile(*ir, pcc);
    if (!engine) {
      error = "base config rejected";
      return false;
    }
    adaptor = std::make_unique<Adaptor>(cgroot, *ir, *engine);
    return true;
  }

  // returns "ok" | "refused-compile" | "refused-engine"
  std::string apply(const Json::Value& op) {
    std::string tag = op["tag"].asString();
    std::string via = op.get("via", "adaptor").asString();
    Oomd::Config2::JsonConfigParser parser;
    Oomd::PluginConstructionContext pcc(cgroot);
    if (op["op"].asString() == "remove") {
      if (via == "engine") {
        engine->removeDropInConfig(tag);
      } else {
        adaptor->remove(tag);
        if (op.get("defer", false).asBool()) return "queued";
        adaptor->results.clear();
        adaptor->updateDropIns();
      }
      return "ok";
    }
    auto dir = parser.parse(jstr(op["config"]));
    if (via == "engine") {
      // compile against a root that may contain a ruleset the engine lacks
      Oomd::Config2::IR::Root root2 = *ir;
      if (op.get("phantom", false).asBool()) {
        Oomd::Config2::IR::Ruleset ghost = ir->rulesets.at(0);
        ghost.name = "ghost";
        ghost.dropin.detectorgroups_enabled = true;
        ghost.dropin.actiongroup_enabled = true;
        root2.rulesets.push_back(ghost);
      }
      auto unit = Oomd::Config2::compileDropIn(root2, *dir, pcc);
      if (!unit) return "refused-compile";
      engine->removeDropInConfig(tag);
      return engine->addDropInConfig(tag, std::move(*unit)) ? "ok" : "refused-engine";
    }
    if (!adaptor->add(tag, *dir)) return "refused-compile";
    if (op.get("defer", false).asBool()) return "queued";
    adaptor->results.clear();
    adaptor->updateDropIns();
    // results of everything that was queued, this operation's last
    for (auto& r : adaptor->results)
      if (!r.second) return "refused-engine";
    return adaptor->results.empty() ? "refused-engine" : "ok";
  }

  Probe probe() {
    Probe p;
    g.tick = tick++;
    size_t mark = g.trace.size();
    ctx.refresh();
    engine->prerun(ctx);
    engine->runOnce(ctx);
    for (size_t i = mark; i < g.trace.size(); i++) {
      auto& e = g.trace[i];
      if (e.k == "plugin" && e.s == "run") p.runs.emplace_back(e.s2, e.a);
      if (e.k == "plugin" && e.s == "prerun") p.preruns.insert(e.s2 + "#" + std::to_string(e.a));
    }
    auto st = Oomd::getStats();
    p.counter = st.count(Oomd::CoreStats::kNumDropInAdds) ? st[Oomd::CoreStats::kNumDropInAdds] : 0;
    for (auto& path : kProbePaths) {
      size_t m2 = g.trace.size();
      auto cg = ctx.addToCacheAndGet(Oomd::CgroupPath(cgroot, path));
      std::string got;
      if (cg) {
        auto inv = engine->firePrekillHook(cg->get(), ctx);
        for (size_t i = m2; i < g.trace.size(); i++)
          if (g.trace[i].k == "hook" && g.trace[i].s == "fire") got = g.trace[i].s2;
      }
      p.hook[path] = got;
    }
    return p;
  }
};

// ------------------------------------------------------------- generator ---
Json::Value det(const std::string& id, bool fail = false) {
  Json::Value p(Json::objectValue);
  p["name"] = "vp_detector";
  p["args"]["id"] = id;
  if (fail) p["args"]["fail_init"] = "1";
  return p;
}
Json::Value act(const std::string& id) {
  Json::Value p(Json::objectValue);
  p["name"] = "vp_action";
  p["args"]["id"] = id;
  return p;
}
Json::Value hookJ(const std::string& id) {
  Json::Value p(Json::objectValue);
  p["name"] = "vp_hook";
  p["args"]["id"] = id;
  std::string pats;
  int n = R(1, 2);
  for (int i = 0; i < n; i++) {
    pats += (i ? "," : "") + oneOf(std::vector<std::string>{"/", "a", "a/b", "c", "*/b", "a/*", "z", "*"});
  }
  p["args"]["cgroup"] = pats;
  return p;
}

Json::Value genCase() {
  Json::Value sc(Json::objectValue);
  Json::Value base(Json::objectValue);
  int nrs = R(1, 3);
  std::vector<std::string> names;
  for (int i = 0; i < nrs; i++) {
    Json::Value rs(Json::objectValue);
    // duplicate names allowed: the first match is the documented target
    std::string name = (i > 0 && P(20)) ? names[0] : "rs" + std::to_string(i);
    names.push_back(name);
    rs["name"] = name;
    rs["drop-in"]["detectors"] = P(65);
    rs["drop-in"]["actions"] = P(65);
    rs["drop-in"]["disable-on-drop-in"] = P(50);
    Json::Value dg(Json::arrayValue);
    dg.append("g");
    dg.append(det("b" + std::to_string(i) + "d"));
    rs["detectors"].append(dg);
    rs["actions"].append(act("b" + std::to_string(i) + "a"));
    // a base ruleset evaluated per matching cgroup (exactly one matches here): targeting, disabling and
    // re-enabling it by drop-ins works as for any other base
    if (P(20)) rs["cgroup"] = "c";
    base["rulesets"].append(rs);
  }
  int nh = R(0, 2);
  for (int i = 0; i < nh; i++) base["prekill_hooks"].append(hookJ("bh" + std::to_string(i)));
  sc["base"] = base;
  int nops = R(1, 12);
  std::set<std::string> active; // generator's view, to keep failing adds off active tags
  std::vector<std::pair<std::string, bool>> queued; // (tag, is add) waiting in the adaptor queue
  auto settle = [&](const Json::Value& o, bool isAdd, bool takesEffect) {
    // mirrors when an operation reaches the engine: at once (engine), with the
    // whole queue (undeferred adaptor operation), or not yet (deferred)
    std::string t = o["tag"].asString();
    if (!takesEffect) return;
    if (o["via"].asString() == "engine") {
      if (isAdd) {
        active.insert(t);
      } else {
        active.erase(t);
      }
      return;
    }
    queued.emplace_back(t, isAdd);
    if (o.get("defer", false).asBool()) return;
    for (auto& q : queued) {
      if (q.second) {
        active.insert(q.first);
      } else {
        active.erase(q.first);
      }
    }
    queued.clear();
  };
  Json::Value ops(Json::arrayValue);
  for (int k = 0; k < nops; k++) {
    Json::Value op(Json::objectValue);
    std::string tag = "t" + std::to_string(R(0, 3));
    op["tag"] = tag;
    op["via"] = P(30) ? "engine" : "adaptor";
    // several watcher events between two main-loop ticks: the operation is only
    // queued; the queue is applied, in order, by the next undeferred adaptor operation
    if (op["via"].asString() == "adaptor" && k < nops - 1 && P(30)) op["defer"] = true;
    int kind = W({50, 25, 25});
    if (kind == 1) {
      op["op"] = "remove";
      settle(op, false, true);
      ops.append(op);
      continue;
    }
    op["op"] = "add";
    bool failing = kind == 2;
    if (failing && active.count(tag)) {
      // keep refused adds away from live tags (whether the old content of the
      // same tag survives a refused re-add is not fixed by the property)
      std::vector<std::string> freeTags;
      for (int t = 0; t < 4; t++)
        if (!active.count("t" + std::to_string(t))) freeTags.push_back("t" + std::to_string(t));
      if (freeTags.empty()) {
        failing = false;
      } else {
        tag = oneOf(freeTags);
        op["tag"] = tag;
      }
    }
    Json::Value cfg(Json::objectValue);
    std::string pre = "o" + std::to_string(k);
    // distinct targets within one unit
    std::vector<std::string> uniq;
    for (auto& n : names)
      if (std::find(uniq.begin(), uniq.end(), n) == uniq.end()) uniq.push_back(n);
    int nr = std::min<int>((int)uniq.size(), W({70, 30}) + 1);
    int rot = R(0, (int)uniq.size() - 1);
    std::rotate(uniq.begin(), uniq.begin() + rot, uniq.end());
    int failKind = failing ? W({25, 25, 20, 15, 15}) : -1;
    for (int r = 0; r < nr; r++) {
      Json::Value rs(Json::objectValue);
      rs["name"] = uniq[r];
      // which parts does it supply? respect permissions unless this is the
      // "permission" failure
      int bi = (int)(std::find(names.begin(), names.end(), uniq[r]) - names.begin());
      bool pd = base["rulesets"][bi]["drop-in"]["detectors"].asBool();
      bool pa = base["rulesets"][bi]["drop-in"]["actions"].asBool();
      bool wantD = P(60), wantA = P(60);
      bool lastRs = r == nr - 1;
      if (failKind == 1 && lastRs) {
        // override a part that was not opened up (if everything is open, fall
        // back to an unknown target)
        if (!pd) {
          wantD = true;
        } else if (!pa) {
          wantA = true;
        } else {
          rs["name"] = "nope";
        }
      } else {
        wantD = wantD && pd;
        wantA = wantA && pa;
      }
      if (failKind == 0 && lastRs) rs["name"] = "nope";
      if (wantD) {
        Json::Value dg(Json::arrayValue);
        dg.append("dg" + pre);
        dg.append(det(pre + "r" + std::to_string(r) + "d", failKind == 2 && lastRs));
        rs["detectors"].append(dg);
      } else if (failKind == 2 && lastRs) {
        rs["name"] = "nope";
      }
      if (wantA) {
        Json::Value a = act(pre + "r" + std::to_string(r) + "a");
        if (failKind == 3 && lastRs) a["name"] = "no_such_plugin";
        rs["actions"].append(a);
      } else if (failKind == 3 && lastRs) {
        rs["name"] = "nope";
      }
      cfg["rulesets"].append(rs);
    }
    if (!failing && P(15)) {
      // two pure copies of the same base in one unit (indistinguishable, so the
      // unspecified order inside a unit does not matter): counts twice
      Json::Value only(Json::arrayValue);
      Json::Value rs(Json::objectValue);
      rs["name"] = uniq[0];
      only.append(rs);
      only.append(rs);
      cfg["rulesets"] = only;
    }
    if (failKind == 4) {
      // engine-stage refusal: a second ruleset targets one the engine lacks
      op["via"] = "engine";
      op["phantom"] = true;
      Json::Value rs(Json::objectValue);
      rs["name"] = "ghost";
      Json::Value dg(Json::arrayValue);
      dg.append("dgx");
      dg.append(det(pre + "gx"));
      rs["detectors"].append(dg);
      cfg["rulesets"].append(rs);
    }
    int nhk = W({60, 30, 10});
    for (int h = 0; h < nhk; h++) cfg["prekill_hooks"].append(hookJ(pre + "h" + std::to_string(h)));
    op["config"] = cfg;
    op["expect_fail"] = failing;
    settle(op, true, !failing);
    ops.append(op);
  }
  sc["ops"] = ops;
  sc["revert_tag"] = "t" + std::to_string(R(0, 3));
  return sc;
}

// ----------------------------------------------------------------- model ---
struct MHook {
  std::string tag; // "" = base
  std::string id;
  std::vector<std::string> patterns;
};
struct MDrop {
  std::string tag;
  int gen;
  int unit_rs; // index within the unit
  std::vector<std::string> ids; // expected run ids, detectors then actions
};
struct Model {
  struct Base {
    std::string name;
    bool pd, pa, dis;
    std::vector<std::string> dets, acts;
    std::deque<MDrop> drops; // newest first
  };
  std::vector<Base> bases;
  std::vector<MHook> baseHooks;
  std::vector<std::vector<MHook>> dropHooks; // newest unit first
  int gen{0};

  void init(const Json::Value& base) {
    for (auto& rs : base["rulesets"]) {
      Base b;
      b.name = rs["name"].asString();
      b.pd = rs["drop-in"]["detectors"].asBool();
      b.pa = rs["drop-in"]["actions"].asBool();
      b.dis = rs["drop-in"]["disable-on-drop-in"].asBool();
      for (auto& dg : rs["detectors"])
        for (Json::ArrayIndex i = 1; i < dg.size(); i++) b.dets.push_back(dg[i]["args"]["id"].asString());
      for (auto& a : rs["actions"]) b.acts.push_back(a["args"]["id"].asString());
      bases.push_back(b);
    }
    for (auto& h : base["prekill_hooks"]) baseHooks.push_back(mh("", h));
  }
  static MHook mh(const std::string& tag, const Json::Value& h) {
    MHook m;
    m.tag = tag;
    m.id = h["args"]["id"].asString();
    m.patterns = vpm::splitComma(h["args"]["cgroup"].asString());
    return m;
  }
  void remove(const std::string& tag) {
    for (auto& b : bases) {
      std::deque<MDrop> keep;
      for (auto& d : b.drops)
        if (d.tag != tag) keep.push_back(d);
      b.drops = keep;
    }
    std::vector<std::vector<MHook>> kh;
    for (auto& u : dropHooks)
      if (u.empty() || u[0].tag != tag) kh.push_back(u);
    dropHooks = kh;
  }
  // returns false if the unit must be refused
  bool valid(const Json::Value& cfg, bool phantom) {
    for (auto& rs : cfg["rulesets"]) {
      std::string name = rs["name"].asString();
      if (name.empty()) return false;
      if (phantom && name == "ghost") return false; // engine cannot locate it
      int bi = find(name);
      if (bi < 0) return false;
      if (rs.isMember("detectors") && rs["detectors"].size() && !bases[bi].pd) return false;
      if (rs.isMember("actions") && rs["actions"].size() && !bases[bi].pa) return false;
      for (auto& dg : rs["detectors"])
        for (Json::ArrayIndex i = 1; i < dg.size(); i++) {
          if (dg[i]["name"].asString() != "vp_detector") return false;
          if (dg[i]["args"].isMember("fail_init")) return false;
        }
      for (auto& a : rs["actions"])
        if (a["name"].asString() != "vp_action") return false;
    }
    return true;
  }
  int find(const std::string& name) {
    for (size_t i = 0; i < bases.size(); i++)
      if (bases[i].name == name) return (int)i;
    return -1;
  }
  void add(const std::string& tag, const Json::Value& cfg) {
    remove(tag);
    gen++;
    int ur = 0;
    for (auto& rs : cfg["rulesets"]) {
      int bi = find(rs["name"].asString());
      MDrop d;
      d.tag = tag;
      d.gen = gen;
      d.unit_rs = ur++;
      bool repD = rs.isMember("detectors") && rs["detectors"].size();
      bool repA = rs.isMember("actions") && rs["actions"].size();
      if (repD) {
        for (auto& dg : rs["detectors"])
          for (Json::ArrayIndex i = 1; i < dg.size(); i++) d.ids.push_back(dg[i]["args"]["id"].asString());
      } else {
        d.ids = bases[bi].dets;
      }
      if (repA) {
        for (auto& a : rs["actions"]) d.ids.push_back(a["args"]["id"].asString());
      } else {
        d.ids.insert(d.ids.end(), bases[bi].acts.begin(), bases[bi].acts.end());
      }
      bases[bi].drops.push_front(d);
    }
    std::vector<MHook> hs;
    for (auto& h : cfg["prekill_hooks"]) hs.push_back(mh(tag, h));
    if (!hs.empty()) dropHooks.insert(dropHooks.begin(), hs);
  }
  int counter() const {
    int n = 0;
    for (auto& b : bases) n += (int)b.drops.size();
    return n;
  }
  // expected (id, instance-key) sequence of one probe tick
  std::vector<std::pair<std::string, std::string>> expected() const {
    std::vector<std::pair<std::string, std::string>> out;
    for (size_t i = 0; i < bases.size(); i++) {
      auto& b = bases[i];
      for (auto& d : b.drops)
        for (auto& id : d.ids) out.emplace_back(id, "D" + std::to_string(d.gen) + "." + std::to_string(d.unit_rs));
      bool enabled = !(b.dis && !b.drops.empty());
      if (enabled) {
        for (auto& id : b.dets) out.emplace_back(id, "B" + std::to_string(i));
        for (auto& id : b.acts) out.emplace_back(id, "B" + std::to_string(i));
      }
    }
    return out;
  }
  std::string hookFor(const std::string& path) const {
    auto m = [&](const MHook& h) {
      for (auto& p : h.patterns)
        if (vpm::hookPatternMatches(path, p)) return true;
      return false;
    };
    for (auto& u : dropHooks)
      for (auto& h : u)
        if (m(h)) return h.id;
    for (auto& h : baseHooks)
      if (m(h)) return h.id;
    return "";
  }
};

void setupWorld(Sim& sim) {
  World w;
  for (auto p : {"", "a", "a/b", "c"}) {
    Cg c;
    c.path = p;
    c.stat = {{"anon", 0}, {"file", 0}, {"pgscan", 0}};
    w.cgs.push_back(c);
  }
  WorldGen wg;
  (void)wg;
  w.host.meminfo = {{"MemTotal", 1 << 20}, {"MemFree", 1 << 19}, {"SwapTotal", 0}, {"SwapFree", 0}};
  w.host.vmstat = {{"pswpout", 0}};
  sim.materialize(w);
}

void beginRun(Sim& sim) {
  g.active = false;
  g.reset();
  g.scratch = sim.scratch();
  g.cgroot = sim.cgroot();
  g.kmsg_fd = Process::get().kmsg_fd;
  setupWorld(sim);
  Oomd::resetStats();
  Oomd::setStat(Oomd::CoreStats::kNumDropInAdds, 0);
  Json::Value s(Json::objectValue);
  s["detectors"]["*"] = "C";
  s["actions"]["*"] = "C";
  scripts.reset(s);
  g.vclock = true;
  g.velapsed_ns = 0;
  g.active = true;
}

Verdict run(const Json::Value& sc) {
  Verdict v;
  auto& P_ = Process::get();
  Sim& sim = *P_.sim;
  beginRun(sim);
  Probe finalA;
  std::string revert = sc["revert_tag"].asString();
  bool revertTouched = false;
  int readdNotNewest = 0, partialAfterSuccess = 0, bursts = 0, burstOps = 0;
  std::vector<bool> flushedAt(sc["ops"].size(), false); // operation k applied the adaptor queue
  try {
    EngineRun er;
    if (!er.init(sc["base"], sim.cgroot())) {
      v.fail("valid base configuration rejected");
      g.active = false;
      return v;
    }
    Model m;
    m.init(sc["base"]);
    std::map<std::string, int64_t> serialOfKey; // instance key + pos -> serial
    int successes = 0;
    std::vector<Json::Value> pending; // queued through the adaptor, not applied yet
    auto check = [&](const std::string& when) {
      Probe p = er.probe();
      auto exp = m.expected();
      size_t n = std::min(exp.size(), p.runs.size());
      for (size_t i = 0; i < n; i++) {
        if (exp[i].first != p.runs[i].first) {
          v.fail(when + ": evaluation order differs at call #" + std::to_string(i) + ": expected " + exp[i].first + ", observed " + p.runs[i].first);
          return;
        }
      }
      if (exp.size() != p.runs.size()) {
        v.fail(when + ": expected " + std::to_string(exp.size()) + " plugin runs, observed " + std::to_string(p.runs.size()) + (exp.size() > n ? " (missing " + exp[n].first + ")" : " (extra " + p.runs[n].first + ")"));
        return;
      }
      // object identity: fresh copies, stable while active, all distinct
      std::set<int64_t> seen;
      for (size_t i = 0; i < n; i++) {
        std::string key = exp[i].second + "#" + std::to_string(i) + exp[i].first;
        key = exp[i].second + ":" + exp[i].first;
        if (!seen.insert(p.runs[i].second).second) {
          v.fail(when + ": plugin object of " + exp[i].first + " is shared between two rulesets");
          return;
        }
        auto it = serialOfKey.find(key);
        if (it == serialOfKey.end()) {
          serialOfKey[key] = p.runs[i].second;
        } else if (it->second != p.runs[i].second) {
          v.fail(when + ": plugin object of " + exp[i].first + " in " + exp[i].second + " was replaced although nothing targeted it");
          return;
        }
        if (p.preruns.count(exp[i].first + "#" + std::to_string(p.runs[i].second)) != 1) {
          v.fail(when + ": prerun count of " + exp[i].first + " is not 1");
          return;
        }
      }
      if (p.counter != m.counter()) {
        v.fail(when + ": oomd.dropin.added is " + std::to_string(p.counter) + ", expected " + std::to_string(m.counter()));
        return;
      }
      for (auto& path : kProbePaths) {
        std::string e = m.hookFor(path);
        if (p.hook[path] != e) {
          v.fail(when + ": prekill hook for '" + path + "' is '" + p.hook[path] + "', expected '" + e + "'");
          return;
        }
      }
      finalA = p;
    };
    check("initially");
    int k = 0;
    for (auto& op : sc["ops"]) {
      if (!v.ok) break;
      std::string when = "after op #" + std::to_string(k++) + " (" + op["op"].asString() + " " + op["tag"].asString() + ")";
      std::string tag = op["tag"].asString();
      if (tag == revert) revertTouched = true;
      std::string res = er.apply(op);
      bool deferred = res == "queued";
      bool viaAdaptor = op.get("via", "adaptor").asString() == "adaptor";
      auto applyToModel = [&](const Json::Value& o) {
        std::string t = o["tag"].asString();
        if (o["op"].asString() == "remove") {
          m.remove(t);
          return;
        }
        // is the tag live and not the newest?
        bool live = false, newest = true;
        for (auto& b : m.bases)
          for (size_t di = 0; di < b.drops.size(); di++)
            if (b.drops[di].tag == t) {
              live = true;
              if (di != 0) newest = false;
            }
        if (live && !newest) readdNotNewest++;
        m.add(t, o["config"]);
        successes++;
      };
      bool modelOp = true; // does this operation change the model (now or at the flush)?
      if (op["op"].asString() != "remove") {
        bool ok = m.valid(op["config"], op.get("phantom", false).asBool());
        if (ok && res != "ok" && res != "queued") {
          v.fail(when + ": valid drop-in was " + res);
          break;
        }
        if (!ok && (res == "ok" || res == "queued")) {
          v.fail(when + ": invalid drop-in was accepted");
          break;
        }
        if (!ok) {
          modelOp = false;
          if (successes > 0) partialAfterSuccess++;
          // engine-stage refusal removes the (inactive) tag: no model change
        }
      }
      if (deferred) {
        pending.push_back(op);
        burstOps++;
      } else if (viaAdaptor) {
        // this operation's updateDropIns() applied the whole queue in order
        // (a refused add queues nothing, but an undeferred refusal does not flush either)
        if (modelOp) {
          flushedAt[k - 1] = true;
          for (auto& o : pending) applyToModel(o);
          if (pending.size() >= 2) bursts++;
          pending.clear();
          applyToModel(op);
        }
      } else if (modelOp) {
        applyToModel(op); // straight to the engine, ahead of whatever is queued
      }
      check(when);
    }
    if (v.ok) {
      // metamorphic reversibility: S ; remove(T)  ==  S without T
      Json::Value rm(Json::objectValue);
      rm["op"] = "remove";
      rm["tag"] = revert;
      rm["via"] = "adaptor";
      er.apply(rm);
      for (auto& o : pending) {
        if (o["op"].asString() == "remove") {
          m.remove(o["tag"].asString());
        } else {
          m.add(o["tag"].asString(), o["config"]);
        }
      }
      pending.clear();
      m.remove(revert);
      check("after final remove(" + revert + ")");
    }
  } catch (const std::exception& e) {
    v.fail(std::string("exception: ") + e.what());
  }
  g.active = false;
  if (v.ok && revertTouched) {
    // second, fresh engine with every operation on the tag deleted
    beginRun(sim);
    try {
      EngineRun er2;
      er2.init(sc["base"], sim.cgroot());
      int k2 = 0;
      for (auto& op : sc["ops"]) {
        bool fl = flushedAt[k2++];
        if (op["tag"].asString() == revert) {
          // the operation is left out, the main-loop tick it stood for is not
          if (fl) er2.adaptor->updateDropIns();
          continue;
        }
        er2.apply(op);
      }
      er2.adaptor->updateDropIns();
      Probe b = er2.probe();
      auto ids = [](const Probe& p) {
        std::string s;
        for (auto& r : p.runs) s += r.first + ",";
        return s;
      };
      if (ids(finalA) != ids(b)) v.fail("reversibility: after remove(" + revert + ") the engine evaluates [" + ids(finalA) + "], the same history without that tag evaluates [" + ids(b) + "]");
      if (finalA.counter != b.counter) v.fail("reversibility: oomd.dropin.added " + std::to_string(finalA.counter) + " vs " + std::to_string(b.counter));
      if (finalA.hook != b.hook) v.fail("reversibility: prekill hook priority differs");
    } catch (const std::exception& e) {
      v.fail(std::string("exception in reference run: ") + e.what());
    }
    g.active = false;
  }
  if (readdNotNewest > 0 || partialAfterSuccess > 0 || bursts > 0) v.nontrivial = true;
  if (bursts) v.labels.push_back("queued_burst");
  if (readdNotNewest) v.labels.push_back("readd_not_newest");
  if (partialAfterSuccess) v.labels.push_back("refused_after_success");
  if (revertTouched) v.labels.push_back("reversibility_checked");
  return v;
}

} // namespace

int main(int argc, char** argv) {
  HarnessDef d;
  d.prop = "C13";
  d.gen = genCase;
  d.run = run;
  return harnessMain(argc, argv, d);
}
