// C14 Drop-in directory watcher: race-free, never fatal, converges to the
// files present (DESIGN.md §C14). Real FsDropInService (inotify on tmpfs, its
// own thread) driven by generated file operations interleaved with main-loop
// ticks; built with TSan and with ASan.
#include "core.h"
#include "gen_common.h"

#include <fcntl.h>
#include <sys/stat.h>
#include <unistd.h>
#include <thread>

#include "oomd/Stats.h"
#include "oomd/config/ConfigCompiler.h"
#include "oomd/config/JsonConfigParser.h"
#include "oomd/dropin/FsDropInService.h"
#include "oomd/engine/Engine.h"

using namespace vp;
using namespace vpgen;

std::string vpm_join(const std::vector<std::string>& v);

namespace {

const int kBases = 3;
const std::vector<std::string> kNames = {"f0", "f1", "f2", "f3", ".dot"};

std::string baseConfig() {
  Json::Value cfg(Json::objectValue);
  auto rs = [](const std::string& name) {
    Json::Value r(Json::objectValue);
    r["name"] = name;
    r["drop-in"]["detectors"] = true;
    r["drop-in"]["actions"] = true;
    Json::Value dg(Json::arrayValue);
    dg.append("g");
    Json::Value d(Json::objectValue);
    d["name"] = "vp_detector";
    d["args"]["id"] = "base_" + name;
    dg.append(d);
    r["detectors"].append(dg);
    Json::Value a(Json::objectValue);
    a["name"] = "vp_action";
    a["args"]["id"] = "act_" + name;
    r["actions"].append(a);
    r["post_action_delay"] = "0";
    return r;
  };
  for (int i = 0; i < kBases; i++) cfg["rulesets"].append(rs("b" + std::to_string(i)));
  cfg["rulesets"].append(rs("sentinel"));
  return jstr(cfg);
}

// content kinds: "valid" (targets base `b`, marker id), "invalid" (not JSON),
// "partial" (prefix of a valid document), "nocompile" (unknown target),
// "baddelay" (compile used to throw), "wrongshape" (well-formed JSON with a
// value of the wrong type at position `shape`: jsoncpp raises Json::LogicError,
// which is not a std::runtime_error), "multi_bad" (two rulesets, one of which
// targets a base that does not exist)
std::string content(const Json::Value& w) {
  std::string kind = w["kind"].asString();
  if (kind == "wrongshape") {
    std::string base = "b" + std::to_string(w.get("base", 0).asInt());
    std::string det = "[[\"g\",{\"name\":\"vp_detector\",\"args\":{\"id\":\"" + w.get("marker", "m").asString() + "\"}}]]";
    switch (w.get("shape", 0).asInt()) {
      case 0:
        return "[1,2,3]";
      case 1:
        return "{\"rulesets\":[3]}";
      case 2:
        return "{\"rulesets\":[{\"name\":{\"x\":1},\"detectors\":" + det + "}]}";
      case 3:
        return "{\"rulesets\":[{\"name\":\"" + base + "\",\"drop-in\":\"yes\",\"detectors\":" + det + "}]}";
      case 4:
        return "{\"rulesets\":[{\"name\":\"" + base + "\",\"silence-logs\":[\"engine\"],\"detectors\":" + det + "}]}";
      case 5:
        return "{\"rulesets\":[{\"name\":\"" + base + "\",\"post_action_delay\":{\"a\":1},\"detectors\":" + det + "}]}";
      default:
        return "{\"rulesets\":[{\"name\":\"" + base + "\",\"detectors\":[[\"g\",5]]}]}";
    }
  }
  Json::Value cfg(Json::objectValue);
  Json::Value r(Json::objectValue);
  r["name"] = kind == "nocompile" ? "no_such_ruleset" : "b" + std::to_string(w.get("base", 0).asInt());
  Json::Value dg(Json::arrayValue);
  dg.append("g");
  Json::Value d(Json::objectValue);
  d["name"] = "vp_detector";
  d["args"]["id"] = w.get("marker", "m").asString();
  dg.append(d);
  r["detectors"].append(dg);
  if (kind == "baddelay") r["post_action_delay"] = "soon";
  cfg["rulesets"].append(r);
  if (kind == "multi_bad") {
    // a second ruleset naming a base that does not exist invalidates the whole file
    Json::Value r2 = r;
    r2["name"] = "no_such_ruleset";
    if (w.get("shape", 0).asInt() % 2) {
      cfg["rulesets"].append(r2);
    } else {
      cfg["rulesets"].insert(0, r2);
    }
  }
  std::string s = jstr(cfg);
  if (kind == "invalid") return "{ this is not json ]";
  if (kind == "partial") return s.substr(0, s.size() / 2);
  return s;
}

Json::Value genWrite(int& serial, const std::string& name) {
  Json::Value w(Json::objectValue);
  int k = W({52, 8, 8, 8, 6, 10, 8});
  w["kind"] = k == 0 ? "valid" : k == 1 ? "invalid" : k == 2 ? "partial" : k == 3 ? "nocompile" : k == 4 ? "baddelay" : k == 5 ? "wrongshape" : "multi_bad";
  if (k >= 5) w["shape"] = R(0, 6);
  w["base"] = R(0, kBases - 1);
  w["marker"] = name + "_v" + std::to_string(serial++);
  w["pieces"] = W({60, 25, 15}) + 1;
  return w;
}

// ops: write / rename_in / rename_out / rename_over / delete / recreate_dir / tick / yield
Json::Value gen() {
  Json::Value c(Json::objectValue);
  int serial = 0;
  // files present before start-up
  if (P(40)) {
    for (auto& n : kNames)
      if (P(50)) {
        Json::Value w = genWrite(serial, n);
        w["name"] = n;
        c["preexisting"].append(w);
      }
  }
  int nops = R(1, 25);
  for (int i = 0; i < nops; i++) {
    Json::Value op(Json::objectValue);
    int k = W({31, 8, 6, 6, 9, 6, 19, 7, 4, 4});
    std::string name = oneOf(kNames);
    switch (k) {
      case 9: {
        // the directory comes back with a file in it, and that file changes again while the main loop's
        // tick is scanning the new directory
        op = genWrite(serial, name);
        op["op"] = "recreate_race";
        op["name"] = name;
        Json::Value first = genWrite(serial, name);
        first["kind"] = "valid";
        op["first"] = first;
        op["what"] = P(70) ? "write" : "delete";
        op["delay_us"] = R(0, 6000);
        op["keep_absent_ticks"] = R(1, 2);
        break;
      }
      case 8:
        // a file event handled by the watcher thread while the main loop is inside its tick
        op = genWrite(serial, name);
        op["op"] = "tick_race";
        op["name"] = name;
        op["what"] = P(70) ? "write" : "delete";
        op["delay_us"] = R(0, 4000);
        break;
      case 0:
        op = genWrite(serial, name);
        op["op"] = "write";
        op["name"] = name;
        break;
      case 1:
        op = genWrite(serial, name);
        op["op"] = "rename_in";
        op["name"] = name;
        break;
      case 2:
        op["op"] = "rename_out";
        op["name"] = name;
        break;
      case 3:
        op["op"] = "rename_over";
        op["name"] = name;
        op["to"] = oneOf(kNames);
        break;
      case 4:
        op["op"] = "delete";
        op["name"] = name;
        break;
      case 5:
        op["op"] = "recreate_dir";
        op["keep_absent_ticks"] = R(0, 2);
        break;
      case 6:
        op["op"] = "tick";
        break;
      case 7:
        op["op"] = "yield";
        op["us"] = R(0, 2000);
        break;
    }
    c["ops"].append(op);
  }
  // compiling a drop-in takes a while (slow plugin initialisation): widens every compile window
  if (P(35)) c["init_sleep_us"] = R(200, 4000);
  // file names up to NAME_MAX: the logical names keep their order, the physical name is the logical one padded to
  // the chosen length (an inotify event carries the name, padded to a multiple of the event header's alignment)
  if (P(25)) {
    for (auto& n : kNames)
      if (P(40)) c["long_names"][n] = oneOf(std::vector<int>{64, 100, 239, 240, 241, 247, 248, 254, 255});
  }
  return c;
}

struct FileModel {
  bool present{false};
  bool valid{false};
  int base{0};
  std::string marker;
  long stamp{0}; // order of the last event that (re)added it
};

void writeFilePieces(const std::string& path, const std::string& data, int pieces) {
  int fd = ::open(path.c_str(), O_WRONLY | O_CREAT | O_TRUNC, 0644);
  if (fd < 0) return;
  size_t off = 0;
  for (int p = 0; p < pieces; p++) {
    size_t end = p == pieces - 1 ? data.size() : data.size() * (p + 1) / pieces;
    if (end > off) {
      if (::write(fd, data.data() + off, end - off) < 0) {
      }
      off = end;
    }
    if (p != pieces - 1) std::this_thread::yield();
  }
  ::close(fd);
}

Verdict run(const Json::Value& c) {
  Verdict v;
  auto& P_ = Process::get();
  Sim& sim = *P_.sim;
  g.active = false;
  g.reset();
  g.scratch = sim.scratch();
  g.cgroot = sim.cgroot();
  Json::Value s(Json::objectValue);
  s["detectors"]["*"] = "C";
  s["actions"]["*"] = "C";
  scripts.reset(s);
  std::string dir = P_.base + "/dropins";
  std::string outside = P_.base + "/outside";
  std::string cmd = "rm -rf '" + dir + "' '" + outside + "' && mkdir -p '" + dir + "' '" + outside + "'";
  if (system(cmd.c_str()) != 0) {
  }
  std::map<std::string, FileModel> model;
  long stamp = 0;
  bool recreated = false;
  bool sawRewriteOfActive = false, sawWrongShape = false, sawTickRace = false;
  scripts.init_sleep_us = c.get("init_sleep_us", 0).asInt();
  int eventsSinceTick = 0, maxEventsBetweenTicks = 0;
  auto applyWrite = [&](const Json::Value& w, const std::string& name) {
    FileModel& f = model[name];
    if (f.present && f.valid) sawRewriteOfActive = true;
    f.present = true;
    f.valid = w["kind"].asString() == "valid";
    if (w["kind"].asString() == "wrongshape") sawWrongShape = true;
    f.base = w["base"].asInt();
    f.marker = w["marker"].asString();
    f.stamp = ++stamp;
  };
  auto phys = [&](const std::string& name) {
    if (!c.isMember("long_names") || !c["long_names"].isMember(name)) return name;
    size_t len = (size_t)c["long_names"][name].asInt();
    return len > name.size() ? name + std::string(len - name.size(), 'x') : name;
  };
  for (auto& w : c["preexisting"]) {
    std::string name = w["name"].asString();
    writeFilePieces(dir + "/" + phys(name), content(w), 1);
    applyWrite(w, name);
  }
  // start-up order: files present are loaded in name order, so the newest
  // (first in evaluation order) is the last name
  {
    std::vector<std::string> names;
    for (auto& kv : model) names.push_back(kv.first);
    std::sort(names.begin(), names.end());
    long st = 0;
    for (auto& n : names) model[n].stamp = ++st;
    stamp = st;
  }
  // the libc shim stays passive here: two threads run oomd code and the only
  // shared harness state they touch is the mutex-protected event log
  g.active = false;
  g.vclock = false;
  Oomd::Config2::JsonConfigParser parser;
  auto ir = parser.parse(baseConfig());
  Oomd::PluginConstructionContext pcc(sim.cgroot());
  auto engine = Oomd::Config2::compile(*ir, pcc);
  Oomd::OomdContext ctx;
  int tickNo = 0;
  std::string failure;
  {
    auto svc = Oomd::FsDropInService::create(sim.cgroot(), *ir, *engine, dir);
    if (!svc) {
      v.fail("FsDropInService::create failed");
      g.active = false;
      return v;
    }
    // one probe tick: returns the run() ids in order
    auto tick = [&]() {
      g.tick = tickNo++;
      size_t mark;
      {
        std::lock_guard<std::recursive_mutex> l(g.mu);
        mark = g.trace.size();
      }
      svc->updateDropIns();
      ctx.refresh();
      engine->prerun(ctx);
      engine->runOnce(ctx);
      std::vector<std::string> ids;
      std::lock_guard<std::recursive_mutex> l(g.mu);
      for (size_t i = mark; i < g.trace.size(); i++)
        if (g.trace[i].k == "plugin" && g.trace[i].s == "run" && g.trace[i].j["kind"].asString() == "detector") ids.push_back(g.trace[i].s2);
      maxEventsBetweenTicks = std::max(maxEventsBetweenTicks, eventsSinceTick);
      eventsSinceTick = 0;
      return ids;
    };
    for (auto& op : c["ops"]) {
      std::string o = op["op"].asString();
      std::string name = op.get("name", "").asString();
      std::string path = dir + "/" + phys(name);
      struct stat st;
      bool dirExists = ::stat(dir.c_str(), &st) == 0;
      if (o == "recreate_race") {
        std::string rm = "rm -rf '" + dir + "'";
        if (system(rm.c_str()) != 0) {
        }
        for (auto& kv : model) kv.second.present = false;
        for (int k = 0; k < op["keep_absent_ticks"].asInt(); k++) tick();
        ::mkdir(dir.c_str(), 0755);
        recreated = true;
        writeFilePieces(path, content(op["first"]), 1);
        applyWrite(op["first"], name);
        std::string what = op["what"].asString();
        std::string data = content(op);
        int delay = op["delay_us"].asInt();
        int savedSleep = scripts.init_sleep_us.load();
        if (savedSleep < 3000) scripts.init_sleep_us = 3000; // the scan's compile takes a few ms
        std::thread racer([&]() {
          std::this_thread::sleep_for(std::chrono::microseconds(delay));
          if (what == "write") {
            writeFilePieces(path, data, 1);
          } else {
            ::unlink(path.c_str());
          }
        });
        tick();
        racer.join();
        scripts.init_sleep_us = savedSleep;
        if (what == "write") {
          applyWrite(op, name);
        } else {
          model[name].present = false;
        }
        eventsSinceTick += 2;
        sawTickRace = true;
      } else if (o == "tick_race" && dirExists) {
        std::string what = op["what"].asString();
        std::string data = content(op);
        int delay = op["delay_us"].asInt();
        std::thread racer([&]() {
          std::this_thread::sleep_for(std::chrono::microseconds(delay));
          if (what == "write") {
            writeFilePieces(path, data, 1);
          } else {
            ::unlink(path.c_str());
          }
        });
        tick();
        racer.join();
        if (what == "write") {
          applyWrite(op, name);
        } else {
          model[name].present = false;
        }
        eventsSinceTick++;
        sawTickRace = true;
      } else if (o == "tick") {
        tick();
      } else if (o == "yield") {
        std::this_thread::sleep_for(std::chrono::microseconds(op["us"].asInt()));
      } else if (o == "write" && dirExists) {
        writeFilePieces(path, content(op), op["pieces"].asInt());
        applyWrite(op, name);
        eventsSinceTick++;
      } else if (o == "rename_in" && dirExists) {
        std::string tmp = outside + "/tmp" + std::to_string(stamp);
        writeFilePieces(tmp, content(op), 1);
        ::rename(tmp.c_str(), path.c_str());
        applyWrite(op, name);
        eventsSinceTick++;
      } else if (o == "rename_out" && dirExists) {
        if (::rename(path.c_str(), (outside + "/out" + std::to_string(stamp)).c_str()) == 0) {
          model[name].present = false;
          eventsSinceTick++;
        }
      } else if (o == "rename_over" && dirExists) {
        std::string to = op["to"].asString();
        if (to != name && model[name].present) {
          if (::rename(path.c_str(), (dir + "/" + phys(to)).c_str()) == 0) {
            FileModel f = model[name];
            f.stamp = ++stamp;
            if (model[to].present && model[to].valid) sawRewriteOfActive = true;
            model[to] = f;
            model[name].present = false;
            eventsSinceTick++;
          }
        }
      } else if (o == "delete" && dirExists) {
        if (::unlink(path.c_str()) == 0) {
          model[name].present = false;
          eventsSinceTick++;
        }
      } else if (o == "recreate_dir") {
        std::string rm = "rm -rf '" + dir + "'";
        if (system(rm.c_str()) != 0) {
        }
        for (auto& kv : model) kv.second.present = false;
        for (int k = 0; k < op["keep_absent_ticks"].asInt(); k++) tick();
        ::mkdir(dir.c_str(), 0755);
        recreated = true;
        eventsSinceTick++;
      }
    }
    // quiescence: make sure the directory exists and is watched again, then a
    // sentinel drop-in fences everything that happened before
    struct stat st;
    if (::stat(dir.c_str(), &st) != 0) ::mkdir(dir.c_str(), 0755);
    tick();
    tick();
    {
      Json::Value w(Json::objectValue);
      w["kind"] = "valid";
      Json::Value cfg(Json::objectValue);
      Json::Value r(Json::objectValue);
      r["name"] = "sentinel";
      Json::Value dg(Json::arrayValue);
      dg.append("g");
      Json::Value d(Json::objectValue);
      d["name"] = "vp_detector";
      d["args"]["id"] = "SENTINEL";
      dg.append(d);
      r["detectors"].append(dg);
      cfg["rulesets"].append(r);
      writeFilePieces(dir + "/zz-sentinel", jstr(cfg), 1);
    }
    std::vector<std::string> ids;
    bool seen = false;
    int ticksWaited = 0;
    auto t0 = std::chrono::steady_clock::now();
    // convergence "within a few ticks": the watcher thread only has to be
    // scheduled once; the watchdog (>= 600 ticks and >= 3 s) is orders of
    // magnitude above that, and the driver replays a trip three times
    while (!seen) {
      ids = tick();
      ticksWaited++;
      seen = std::find(ids.begin(), ids.end(), "SENTINEL") != ids.end();
      if (seen) break;
      auto waited = std::chrono::duration_cast<std::chrono::milliseconds>(std::chrono::steady_clock::now() - t0).count();
      if (ticksWaited >= 600 && waited >= 3000) break;
      std::this_thread::sleep_for(std::chrono::milliseconds(5));
    }
    if (!seen) {
      v.fail("the drop-in directory is quiet but a file written into it was not picked up within " + std::to_string(ticksWaited) + " ticks" + (recreated ? " (the directory had been removed and re-created)" : ""));
    } else {
      ids = tick(); // one more, nothing may change any more
      // expected active drop-ins per base ruleset
      std::map<int, std::vector<std::pair<long, std::string>>> want;
      for (auto& kv : model) {
        const FileModel& f = kv.second;
        if (!f.present || !f.valid || kv.first[0] == '.') continue;
        want[f.base].push_back({f.stamp, f.marker});
      }
      // observed: ids before base_b<k> (after the previous base's id) belong to b<k>
      std::map<int, std::vector<std::string>> got;
      int cur = 0;
      for (auto& id : ids) {
        if (id.compare(0, 6, "base_b") == 0) {
          cur = atoi(id.c_str() + 6) + 1;
          continue;
        }
        if (id == "SENTINEL" || id == "base_sentinel") continue;
        got[cur].push_back(id);
      }
      for (int b = 0; b < kBases && v.ok; b++) {
        std::set<std::string> ws, gs(got[b].begin(), got[b].end());
        for (auto& p : want[b]) ws.insert(p.second);
        if (ws != gs) {
          std::string a, bb;
          for (auto& x : gs) a += x + " ";
          for (auto& x : ws) bb += x + " ";
          v.fail("after quiescence the active drop-ins of b" + std::to_string(b) + " are {" + a + "}, the valid files present hold {" + bb + "}");
          break;
        }
        if (got[b].size() != gs.size()) {
          v.fail("a drop-in of b" + std::to_string(b) + " is active twice");
          break;
        }
        if (!recreated) {
          // newest first (no directory re-creation: events are FIFO)
          auto w2 = want[b];
          std::sort(w2.begin(), w2.end(), [](auto& x, auto& y) { return x.first > y.first; });
          for (size_t i = 0; i < w2.size(); i++)
            if (w2[i].second != got[b][i]) {
              v.fail("drop-ins of b" + std::to_string(b) + " run in the order [" + vpm_join(got[b]) + "], newest first would be [" + [&] {
                std::string s2;
                for (auto& p : w2) s2 += p.second + " ";
                return s2;
              }() + "]");
              break;
            }
        }
      }
    }
  } // ~FsDropInService joins the watcher thread
  g.active = false;
  if ((sawRewriteOfActive && recreated) || maxEventsBetweenTicks >= 3) v.nontrivial = true;
  if (recreated) v.labels.push_back("dir_recreated");
  if (sawWrongShape) v.labels.push_back("wrong_shape_json");
  if (sawTickRace) v.labels.push_back("event_during_tick");
  scripts.init_sleep_us = 0;
  if (sawRewriteOfActive) v.labels.push_back("rewrite_of_active");
  if (c.isMember("preexisting")) v.labels.push_back("preexisting_files");
  if (c.isMember("long_names")) v.labels.push_back("long_file_names");
  return v;
}

} // namespace

// small helper used in a message above
std::string vpm_join(const std::vector<std::string>& v) {
  std::string s;
  for (auto& x : v) s += x + " ";
  return s;
}

int main(int argc, char** argv) {
  HarnessDef d;
  d.prop = "C14";
  d.gen = gen;
  d.run = run;
  return harnessMain(argc, argv, d);
}
