// C15 Cgroup statistics equal the reference function of kernel files and tick
// history (DESIGN.md §C15). A vp_probe plugin queries every accessor of every
// cgroup inside the real tick, twice, with a file rewrite in between.
#include "core.h"
#include "gen_common.h"
#include "statmodel.h"

#include "oomd/OomdContext.h"

using namespace vp;
using namespace vpgen;

namespace {

Json::Value psiObs(const std::optional<Oomd::ResourcePressure>& p) {
  if (!p) return Json::Value();
  Json::Value a(Json::arrayValue);
  a.append((double)p->sec_10);
  a.append((double)p->sec_60);
  a.append((double)p->sec_300);
  if (p->total) {
    a.append((Json::UInt64)p->total->count());
  } else {
    a.append(Json::Value());
  }
  return a;
}
template <class T>
Json::Value optI(const std::optional<T>& o) {
  if (!o) return Json::Value();
  return Json::Value((Json::Int64)*o);
}
template <class T>
Json::Value optD(const std::optional<T>& o) {
  if (!o) return Json::Value();
  return Json::Value((double)*o);
}
Json::Value optB(const std::optional<bool>& o) {
  if (!o) return Json::Value();
  return Json::Value(*o);
}

Json::Value observe(const Oomd::CgroupContext& c) {
  Json::Value o(Json::objectValue);
  if (auto& ch = c.children()) {
    std::vector<std::string> names = *ch;
    std::sort(names.begin(), names.end());
    Json::Value a(Json::arrayValue);
    for (auto& n : names) a.append(n);
    o["children"] = a;
  } else {
    o["children"] = Json::Value();
  }
  o["mem_pressure"] = psiObs(c.mem_pressure());
  o["mem_pressure_some"] = psiObs(c.mem_pressure_some());
  o["io_pressure"] = psiObs(c.io_pressure());
  o["io_pressure_some"] = psiObs(c.io_pressure_some());
  if (auto& st = c.memory_stat()) {
    Json::Value m(Json::objectValue);
    for (auto& kv : *st) m[kv.first] = (Json::Int64)kv.second;
    o["memory_stat"] = m;
  } else {
    o["memory_stat"] = Json::Value();
  }
  if (auto& io = c.io_stat()) {
    Json::Value a(Json::arrayValue);
    for (auto& d : *io) {
      Json::Value x(Json::arrayValue);
      x.append(d.dev_id);
      x.append((Json::Int64)d.rbytes);
      x.append((Json::Int64)d.wbytes);
      x.append((Json::Int64)d.rios);
      x.append((Json::Int64)d.wios);
      x.append((Json::Int64)d.dbytes);
      x.append((Json::Int64)d.dios);
      a.append(x);
    }
    o["io_stat"] = a;
  } else {
    o["io_stat"] = Json::Value();
  }
  if (auto id = c.id()) {
    o["id"] = (Json::UInt64)*id;
  } else {
    o["id"] = Json::Value();
  }
  o["current_usage"] = optI(c.current_usage());
  o["swap_usage"] = optI(c.swap_usage());
  o["swap_max"] = optI(c.swap_max());
  o["memory_low"] = optI(c.memory_low());
  o["memory_min"] = optI(c.memory_min());
  o["memory_high"] = optI(c.memory_high());
  o["memory_high_tmp"] = optI(c.memory_high_tmp());
  o["memory_max"] = optI(c.memory_max());
  o["nr_dying_descendants"] = optI(c.nr_dying_descendants());
  o["is_populated"] = optB(c.is_populated());
  if (auto kp = c.kill_preference()) {
    o["kill_preference"] = (int)*kp;
  } else {
    o["kill_preference"] = Json::Value();
  }
  o["oom_group"] = optB(c.oom_group());
  o["effective_swap_max"] = optI(c.effective_swap_max());
  o["effective_swap_free"] = optI(c.effective_swap_free());
  o["effective_swap_util_pct"] = optD(c.effective_swap_util_pct());
  o["memory_protection"] = optI(c.memory_protection());
  o["io_cost_cumulative"] = optD(c.io_cost_cumulative());
  try {
    o["pg_scan_cumulative"] = optI(c.pg_scan_cumulative());
    o["pg_scan_rate"] = optI(c.pg_scan_rate());
  } catch (const std::exception&) {
    o["pg_scan_cumulative"] = "throws";
    o["pg_scan_rate"] = Json::Value();
  }
  o["io_cost_rate"] = optD(c.io_cost_rate());
  o["average_usage"] = optI(c.average_usage());
  o["memory_growth"] = optD(c.memory_growth());
  o["anon_usage"] = optI(c.anon_usage());
  o["file_usage"] = optI(c.file_usage());
  o["shmem_usage"] = optI(c.shmem_usage());
  o["effective_usage"] = optI(c.effective_usage());
  return o;
}

// observations: [tick] -> {"first":{path:obs}, "second":{path:obs}}
Json::Value g_obs;
const Json::Value* g_case = nullptr;

Json::Value queryAll(Oomd::OomdContext& ctx, Sim& sim) {
  Json::Value out(Json::objectValue);
  std::vector<std::string> paths;
  for (auto& c : sim.world().cgs) paths.push_back(c.path);
  for (auto& p : paths) {
    auto cg = ctx.addToCacheAndGet(Oomd::CgroupPath(sim.cgroot(), p));
    out[p.empty() ? "/" : p] = cg ? observe(cg->get()) : Json::Value();
  }
  return out;
}

void probe(Oomd::OomdContext& ctx, const std::string& /*id*/, Sim& sim) {
  int t = g.tick;
  Json::Value rec(Json::objectValue);
  rec["first"] = queryAll(ctx, sim);
  const Json::Value& rw = (*g_case)["rewrites"][t];
  if (rw.isObject()) {
    Cg* c = sim.world().find(rw["path"].asString());
    if (c) {
      Op op;
      op.op = "set";
      op.cg = *c;
      op.cg.pids.clear();
      std::string f = rw["field"].asString();
      int64_t val = rw["value"].asInt64();
      if (f == "cur") op.cg.mem_current = val;
      if (f == "swap") op.cg.swap_current = val;
      if (f == "low") op.cg.mem_low = val;
      if (f == "pgscan")
        for (auto& kv : op.cg.stat)
          if (kv.first == "pgscan") kv.second = val;
      if (f == "psi") op.cg.mem_psi.full[0] = (int)(val % 10000);
      sim.apply(op);
      rec["second"] = queryAll(ctx, sim);
    }
  }
  g_obs[t] = rec;
}

// per-file faults (C10's "the affected statistic is reported as
// unavailable"): any control file an accessor reads, in any of the three modes
const std::vector<std::string> kFaultFiles = {
    "memory.pressure", "io.pressure", "memory.stat", "io.stat", "memory.current", "memory.swap.current",
    "memory.swap.max", "memory.low", "memory.min", "memory.high", "memory.max", "memory.high.tmp",
    "cgroup.stat", "cgroup.events", "memory.oom.group"};
bool c10mode() {
  const char* p = getenv("VP_PROP");
  return p && std::string(p) == "C10";
}
void genFaults(Cg& c, int pct) {
  if (!P(pct)) return;
  int n = P(70) ? 1 : R(2, 4);
  for (int i = 0; i < n; i++) {
    std::string f = oneOf(kFaultFiles);
    if (c.path.empty() && f != "memory.stat" && f != "io.stat" && f != "cgroup.stat") continue;
    c.faults[f] = oneOf(std::vector<std::string>{"absent", "empty", "unreadable"});
  }
}

Json::Value gen() {
  Json::Value sc(Json::objectValue);
  WorldGen wg;
  bool big = P(35);
  wg.prof.maxlog2 = big ? 60 : 38;
  wg.prof.legacy_psi = true;
  wg.prof.max_pids = 3;
  wg.prof.outcomes = false;
  World w = wg.build(P(50) ? 4 : 3, 10);
  // richer file grammar: permuted / extra memory.stat keys, several devices,
  // high.tmp, max values, nr_dying, sums that stay below 2^62
  int64_t budget = (int64_t(1) << 61);
  for (auto& c : w.cgs) {
    if (c.path.empty()) continue;
    if (c.mem_current > budget / 16) c.mem_current = (budget / 16) & ~int64_t(0xFFF);
    if (P(30)) {
      c.stat.push_back({"workingset_refault_anon", R64(0, int64_t(1) << 40)});
      c.stat.insert(c.stat.begin(), {"sock", R64(0, 1 << 20)});
    }
    if (P(30)) std::rotate(c.stat.begin(), c.stat.begin() + R(0, (int)c.stat.size() - 1), c.stat.end());
    if (P(40)) {
      IoDev d;
      d.major = 8;
      d.minor = 16;
      d.rbytes = R64(0, int64_t(1) << 40);
      d.wbytes = R64(0, int64_t(1) << 40);
      d.rios = R64(0, 1 << 30);
      d.wios = R64(0, 1 << 30);
      d.dbytes = R64(0, 1 << 30);
      d.dios = R64(0, 1 << 20);
      c.io_stat.push_back(d);
    }
    if (P(20)) {
      IoDev d;
      d.major = 259;
      d.minor = 3; // not configured
      d.rbytes = R64(0, int64_t(1) << 40);
      c.io_stat.push_back(d);
    }
    if (P(35)) {
      // loop / dm devices that are not configured, listed before the configured ones
      int n = R(1, 3);
      for (int i = 0; i < n; i++) {
        IoDev d;
        d.major = P(50) ? 7 : 253;
        d.minor = i;
        d.rbytes = R64(0, int64_t(1) << 40);
        d.wbytes = R64(0, int64_t(1) << 40);
        d.rios = R64(0, 1 << 30);
        d.wios = R64(0, 1 << 30);
        c.io_stat.insert(c.io_stat.begin() + R(0, (int)c.io_stat.size() - (P(50) ? 1 : 0)), d);
      }
    }
    if (P(30)) {
      c.has_high_tmp = true;
      c.high_tmp = P(50) ? kMax : pages(wg.prof.maxlog2);
      c.high_tmp_us = R64(0, 20000000);
    }
    if (P(30)) c.nr_dying = R64(0, 100000);
    if (P(15)) c.swap_max = 0;
    if (P(10)) c.mem_low = kMax;
    if (P(10)) c.mem_min = kMax;
  }
  // VP_PROP=C10: the same harness as a sub-campaign of C10 ("the affected statistic is reported as unavailable"):
  // every case carries control-file faults that appear, change and heal between ticks
  bool withFaults = c10mode() || P(40);
  if (withFaults)
    for (auto& c : w.cgs) genFaults(c, c.path.empty() ? 10 : 30);
  if (big) {
    w.host.swaps.clear();
    w.host.swaps.push_back({R64(int64_t(1) << 22, int64_t(1) << 34), 0});
    w.host.swaps[0].used_kb = R64(0, w.host.swaps[0].size_kb);
    if (P(40)) w.host.swaps.push_back({R64(0, 1 << 24), 0});
  }
  sc["world"] = w.toJson();
  Json::Value cfg(Json::objectValue);
  Json::Value rs(Json::objectValue);
  rs["name"] = "probe";
  Json::Value dg(Json::arrayValue);
  dg.append("g");
  Json::Value pr(Json::objectValue);
  pr["name"] = "vp_probe";
  pr["args"]["id"] = "p";
  dg.append(pr);
  rs["detectors"].append(dg);
  Json::Value act(Json::objectValue);
  act["name"] = "vp_action";
  act["args"]["id"] = "a";
  rs["actions"].append(act);
  cfg["rulesets"].append(rs);
  sc["config"] = cfg;
  sc["interval"] = 5;
  sc["devs"]["8:0"] = P(50) ? "ssd" : "hdd";
  if (P(60)) sc["devs"]["8:16"] = P(50) ? "ssd" : "hdd";
  if (P(30)) {
    for (const char* k : {"hdd_coeffs", "ssd_coeffs"})
      for (int i = 0; i < 6; i++) sc[k].append(R(0, 1000000) / 1e7);
  }
  sc["dt_unknown"] = P(25);
  int nticks = R(2, 8);
  World view = w;
  Json::Value ticks(Json::arrayValue), rewrites(Json::arrayValue);
  for (int t = 0; t < nticks; t++) {
    Json::Value tick(Json::objectValue);
    tick["adv_ms"] = 5000;
    Json::Value ops(Json::arrayValue);
    std::vector<std::string> paths;
    for (auto& c : view.cgs)
      if (!c.path.empty()) paths.push_back(c.path);
    if (t > 0 && !paths.empty()) {
      int nset = R(0, 4);
      for (int i = 0; i < nset; i++) {
        Cg* c = view.find(oneOf(paths));
        if (!c) continue;
        c->mem_current = std::min<int64_t>(pages(wg.prof.maxlog2), budget / 16) & ~int64_t(0xFFF);
        for (auto& kv : c->stat)
          if (kv.first == "pgscan") kv.second += R64(0, 1000000);
        for (auto& d : c->io_stat) {
          d.rbytes += R64(0, 1 << 26);
          d.wios += R64(0, 10000);
        }
        c->mem_psi = genPsi(c->mem_psi.legacy);
        if (P(30)) c->swap_current = pages(wg.prof.maxlog2);
        if (withFaults) {
          // a fault appears, changes or heals between two ticks
          if (!c->faults.empty() && P(40)) {
            c->faults.erase(c->faults.begin());
          } else {
            genFaults(*c, 30);
          }
        }
        Op op;
        op.op = "set";
        op.cg = *c;
        op.cg.pids.clear();
        ops.append(op.toJson());
      }
      if (P(35)) {
        // remove (and maybe re-create under the same name) a leaf-ish cgroup
        std::string p = oneOf(paths);
        Op rmop;
        rmop.op = "rm";
        rmop.path = p;
        ops.append(rmop.toJson());
        std::vector<Cg> keep;
        Cg old;
        for (auto& c : view.cgs) {
          if (c.path == p) old = c;
          if (view.isDescendantOrSelf(p, c.path) && !c.path.empty()) continue;
          keep.push_back(c);
        }
        view.cgs = keep;
        if (P(60)) {
          Op mk;
          mk.op = "mk";
          mk.cg = wg.genCg(p, true);
          mk.cg.mem_current = std::min<int64_t>(mk.cg.mem_current, budget / 16) & ~int64_t(0xFFF);
          ops.append(mk.toJson());
          view.cgs.push_back(mk.cg);
        }
      }
      if (P(25)) {
        Op h;
        h.op = "host";
        wg.genHost();
        h.host = wg.w.host;
        ops.append(h.toJson());
      }
    }
    tick["ops"] = ops;
    ticks.append(tick);
    if (P(50) && !paths.empty()) {
      Json::Value rw(Json::objectValue);
      rw["path"] = oneOf(paths);
      rw["field"] = oneOf(std::vector<std::string>{"cur", "swap", "pgscan", "psi", "low"});
      rw["value"] = (Json::Int64)(pages(36));
      rewrites.append(rw);
    } else {
      rewrites.append(Json::Value());
    }
  }
  sc["ticks"] = ticks;
  sc["rewrites"] = rewrites;
  // without d_type every entry is stat()ed after it was read: a child removed in between makes that
  // listing fail; the next tick must list the directory from its beginning again
  if (sc["dt_unknown"].asBool() && nticks >= 3 && P(50)) {
    std::vector<std::string> withKids;
    for (auto& c : view.cgs)
      if (!view.children(c.path).empty() && w.find(c.path)) withKids.push_back(c.path);
    if (!withKids.empty()) {
      std::string par = oneOf(withKids);
      auto kids = view.children(par);
      const Cg* k = kids[R(0, (int)kids.size() - 1)];
      if (w.find(k->path)) {
        sc["readdir_rm"]["tick"] = nticks - 2;
        sc["readdir_rm"]["dir"] = par;
        sc["readdir_rm"]["name"] = k->path.substr(par.empty() ? 0 : par.size() + 1);
      }
    }
  }
  // kernfs-style 64-bit cgroup identities (generation in the upper half, slot recycled per path)
  if (P(25)) sc["virt_ino"] = true;
  return sc;
}

Verdict run(const Json::Value& sc) {
  Verdict v;
  g_obs = Json::Value(Json::arrayValue);
  g_case = &sc;
  DaemonHooks hooks;
  hooks.probe = probe;
  int rmTick = sc.isMember("readdir_rm") ? sc["readdir_rm"]["tick"].asInt() : -1;
  bool rmDone = false;
  if (rmTick >= 0) {
    hooks.on_tick = [&](Sim& sim, int t) {
      if (t != rmTick) {
        g.on_readdir = nullptr;
        return;
      }
      std::string dir = sim.cgroot() + (sc["readdir_rm"]["dir"].asString().empty() ? "" : "/" + sc["readdir_rm"]["dir"].asString());
      std::string name = sc["readdir_rm"]["name"].asString();
      std::string victim = (sc["readdir_rm"]["dir"].asString().empty() ? "" : sc["readdir_rm"]["dir"].asString() + "/") + name;
      g.on_readdir = [&sim, &rmDone, dir, name, victim](const std::string& d, const std::string& n) {
        if (rmDone || d != dir || n != name) return;
        rmDone = true;
        Op rm;
        rm.op = "rm";
        rm.path = victim;
        sim.apply(rm);
      };
    };
  }
  RunResult R = runDaemon(sc, &hooks);
  g.on_readdir = nullptr;
  if (!R.config_ok) {
    v.fail("configuration rejected: " + R.config_error);
    return v;
  }
  if (!R.exception.empty()) {
    v.fail(R.exception);
    return v;
  }
  vps::DevCfg dev;
  for (auto& k : sc["devs"].getMemberNames()) dev.devs[k] = sc["devs"][k].asString();
  if (sc.isMember("hdd_coeffs"))
    for (int i = 0; i < 6; i++) dev.hdd[i] = sc["hdd_coeffs"][i].asDouble();
  if (sc.isMember("ssd_coeffs"))
    for (int i = 0; i < 6; i++) dev.ssd[i] = sc["ssd_coeffs"][i].asDouble();
  int nticks = sc["ticks"].size();
  // inode of each path per tick, from the observations' world: path -> inode
  std::map<uint64_t, Json::Value> prevById; // previous tick's observation by id
  bool recreated = false, deepProt = false, faulted = false, healed = false;
  for (int t = 0; t < nticks && v.ok; t++) {
    if (t >= (int)g_obs.size() || !g_obs[t].isObject()) {
      v.fail("probe did not run at tick " + std::to_string(t));
      break;
    }
    const World& w = R.worlds[t];
    const Json::Value& first = g_obs[t]["first"];
    std::map<uint64_t, Json::Value> nowById;
    if (t == rmTick && rmDone) {
      // the tick in which a cgroup went away under a directory listing is not judged (C10's subject);
      // what was observed still is the history the next tick builds on
      for (auto& c : w.cgs) {
        const Json::Value& o = first[c.path.empty() ? "/" : c.path];
        if (o.isObject() && !o["id"].isNull()) nowById[o["id"].asUInt64()] = o;
      }
      prevById = nowById;
      v.labels.push_back("removed_under_listing");
      v.nontrivial = true;
      continue;
    }
    for (auto& c : w.cgs) {
      std::string key = c.path.empty() ? "/" : c.path;
      const Json::Value& o = first[key];
      std::string at = " of '" + key + "' at tick " + std::to_string(t);
      if (!o.isObject()) {
        v.fail("no statistics" + at);
        break;
      }
      // identity: the inode the harness created for that path at this tick
      uint64_t ino = 0;
      for (auto& kv : R.inodes)
        if (kv.second == c.path) ino = std::max(ino, kv.first); // latest creation so far...
      // more precise: the observed id must be one of the inodes created for this path
      uint64_t oid = o["id"].isNull() ? 0 : o["id"].asUInt64();
      auto it = R.inodes.find(oid);
      if (it == R.inodes.end() || it->second != c.path) {
        v.fail("id" + at + " is " + std::to_string(oid) + ", not an inode of that cgroup");
        break;
      }
      vps::Hist h;
      auto pv = prevById.find(oid);
      if (pv != prevById.end()) {
        h.have = true;
        h.prev = pv->second;
      } else if (t > 0) {
        // new identity: was the path present before? then it was re-created
        if (R.worlds[t - 1].find(c.path)) {
          recreated = true;
          // a different cgroup must have a different identity
          for (auto& kv : prevById) {
            (void)kv;
          }
        }
      }
      if (!c.faults.empty()) faulted = true;
      if (c.faults.empty() && t > 0) {
        const Cg* pc = R.worlds[t - 1].find(c.path);
        if (pc && !pc->faults.empty() && h.have) healed = true;
      }
      Json::Value e = vps::expectCg(w, c.path, dev, h, oid);
      for (auto& f : e.getMemberNames()) {
        if (f.find(".tol") != std::string::npos) continue;
        std::string d = vps::cmpField(f, e[f], o[f], e.get(f + ".tol", 0.0).asDouble());
        if (!d.empty()) {
          v.fail(d + at);
          break;
        }
      }
      if (!v.ok) break;
      nowById[oid] = o;
      if (vpm::splitPath(c.path).size() >= 3 && o["memory_protection"].isIntegral() && o["memory_protection"].asInt64() > 0) {
        const Json::Value& po = first[vps::parentOf(c.path)];
        if (po.isObject() && po["memory_protection"].isIntegral() && po["memory_protection"].asInt64() > 0) deepProt = true;
      }
    }
    // re-created cgroup => different identity than last tick's
    if (t > 0 && v.ok) {
      for (auto& c : w.cgs) {
        bool rm_mk = false;
        bool sawRm = false;
        for (auto& o : sc["ticks"][t]["ops"]) {
          if (o["op"].asString() == "rm" && o["path"].asString() == c.path) sawRm = true;
          if (o["op"].asString() == "mk" && o["cg"]["path"].asString() == c.path && sawRm) rm_mk = true;
        }
        if (!rm_mk) continue;
        recreated = true;
        std::string key = c.path;
        const Json::Value& before = g_obs[t - 1]["first"][key];
        const Json::Value& after = first[key];
        if (before.isObject() && after.isObject() && before["id"] == after["id"]) {
          v.fail("cgroup '" + key + "' was removed and re-created before tick " + std::to_string(t) + " but kept its identity");
        }
      }
    }
    // cache: a second query within the tick returns the same values
    const Json::Value& second = g_obs[t]["second"];
    if (v.ok && second.isObject()) {
      v.labels.push_back("requery");
      for (auto& key : first.getMemberNames()) {
        if (!second.isMember(key)) continue;
        for (auto& f : first[key].getMemberNames()) {
          if (first[key][f].isNull()) continue; // an unavailable value was never obtained
          if (first[key][f] != second[key][f]) {
            v.fail(f + " of '" + key + "' changed within tick " + std::to_string(t) + " from " + jstr(first[key][f]) + " to " + jstr(second[key][f]));
            break;
          }
        }
        if (!v.ok) break;
      }
    }
    prevById = nowById;
  }
  if (recreated || deepProt || faulted) v.nontrivial = true;
  if (faulted) v.labels.push_back("file_fault");
  if (healed) v.labels.push_back("fault_healed");
  if (recreated) v.labels.push_back("recreated");
  if (deepProt) v.labels.push_back("deep_protection");
  if (sc.get("dt_unknown", false).asBool()) v.labels.push_back("dt_unknown");
  return v;
}

} // namespace

int main(int argc, char** argv) {
  HarnessDef d;
  d.prop = c10mode() ? "C10" : "C15";
  d.gen = gen;
  d.run = run;
  return harnessMain(argc, argv, d);
}
