// C16 Cgroup path algebra and wildcard / pattern matching are exact
// (DESIGN.md §C16). Exhaustive enumeration of short strings over a small
// alphabet (fixed mode, in batches) + rapidcheck for longer random strings.
#include "core.h"
#include "gen_common.h"
#include "models.h"

#include <fcntl.h>
#include <sys/stat.h>
#include <unistd.h>

#include "oomd/PluginConstructionContext.h"
#include "oomd/include/CgroupPath.h"
#include "oomd/util/PluginArgParser.h"

using namespace vp;

namespace {

const std::string kAlpha = "ab/*?.";

std::vector<std::string> allStrings(int maxlen, const std::string& alpha = kAlpha) {
  std::vector<std::string> out = {""};
  size_t start = 0;
  for (int l = 1; l <= maxlen; l++) {
    size_t end = out.size();
    for (size_t i = start; i < end; i++)
      for (char ch : alpha) out.push_back(out[i] + ch);
    start = end;
  }
  return out;
}

std::string canon(const std::string& s) {
  return vpm::joinPath(vpm::splitPath(s));
}

// ------------------------------------------------------------ unary laws ---
std::string checkUnary(const std::string& fsIn, const std::string& s) {
  Oomd::CgroupPath p(fsIn, s);
  std::string fs = fsIn;
  if (fs.size() > 1 && fs.back() == '/') fs.pop_back();
  auto parts = vpm::splitPath(s);
  std::string rel = vpm::joinPath(parts);
  auto show = [&](const std::string& what, const std::string& got, const std::string& want) {
    return "CgroupPath(\"" + fsIn + "\", \"" + s + "\")." + what + " is \"" + got + "\", expected \"" + want + "\"";
  };
  if (p.relativePath() != rel) return show("relativePath()", p.relativePath(), rel);
  std::string abs = rel.empty() ? fs : fs + "/" + rel;
  if (p.absolutePath() != abs) return show("absolutePath()", p.absolutePath(), abs);
  if (p.relativePathParts() != parts) return show("relativePathParts()", vpm::joinPath(p.relativePathParts()), rel);
  if (p.cgroupFs() != fs) return show("cgroupFs()", p.cgroupFs(), fs);
  if (p.isRoot() != parts.empty()) return show("isRoot()", p.isRoot() ? "true" : "false", parts.empty() ? "true" : "false");
  // appending one component and taking the parent is the identity
  for (const char* c : {"a", "b", "*", "a.b", "?"}) {
    Oomd::CgroupPath ch = p.getChild(c);
    if (ch.relativePath() != (rel.empty() ? std::string(c) : rel + "/" + c)) return show(std::string("getChild(\"") + c + "\").relativePath()", ch.relativePath(), rel + "/" + c);
    Oomd::CgroupPath back = ch.getParent();
    if (!(back == p) || back.relativePath() != rel || back.absolutePath() != abs) return show(std::string("getChild(\"") + c + "\").getParent()", back.absolutePath(), abs);
    if (std::hash<Oomd::CgroupPath>()(back) != std::hash<Oomd::CgroupPath>()(p)) return show("hash after getChild/getParent", "differs", "equal");
  }
  // multi-component child == appending the components
  {
    Oomd::CgroupPath ch = p.getChild("x//y/");
    std::string want = rel.empty() ? "x/y" : rel + "/x/y";
    if (ch.relativePath() != want) return show("getChild(\"x//y/\").relativePath()", ch.relativePath(), want);
  }
  if (parts.empty()) {
    bool threw = false;
    try {
      p.getParent();
    } catch (const std::invalid_argument&) {
      threw = true;
    }
    if (!threw) return show("getParent() of the root", "no exception", "std::invalid_argument");
  } else {
    Oomd::CgroupPath par = p.getParent();
    std::string want = vpm::joinPath(parts, parts.size() - 1);
    if (par.relativePath() != want) return show("getParent().relativePath()", par.relativePath(), want);
  }
  return "";
}

std::string checkEq(const std::string& fs1, const std::string& a, const std::string& fs2, const std::string& b) {
  Oomd::CgroupPath p(fs1, a), q(fs2, b);
  bool eqAbs = p.absolutePath() == q.absolutePath();
  if ((p == q) != eqAbs || (p != q) == eqAbs) return "operator== of (\"" + fs1 + "\",\"" + a + "\") and (\"" + fs2 + "\",\"" + b + "\") disagrees with absolute-path equality";
  if (eqAbs && std::hash<Oomd::CgroupPath>()(p) != std::hash<Oomd::CgroupPath>()(q)) return "equal paths (\"" + a + "\", \"" + b + "\") hash differently";
  return "";
}

std::string checkPattern(const std::string& path, const std::string& pat) {
  Oomd::CgroupPath p("/r", path), q("/r", pat);
  bool got = p.hasDescendantWithPrefixMatching(q);
  bool want = vpm::hookPatternMatches(path, pat);
  if (got != want) return "path \"" + path + "\" vs pattern \"" + pat + "\": hasDescendantWithPrefixMatching is " + (got ? "true" : "false") + ", the documented relation says " + (want ? "true" : "false");
  return "";
}

std::string checkParseCgroup(const std::string& s) {
  Oomd::PluginConstructionContext ctx("/r/");
  auto got = Oomd::PluginArgParser::parseCgroup(ctx, s);
  std::set<std::string> g, w;
  for (auto& p : got) g.insert(p.absolutePath());
  for (auto& part : vpm::splitComma(s)) {
    std::string rel = canon(part);
    w.insert(rel.empty() ? "/r" : "/r/" + rel);
  }
  if (g != w) {
    std::string a, b;
    for (auto& x : g) a += x + " ";
    for (auto& x : w) b += x + " ";
    return "parseCgroup(\"" + s + "\") = {" + a + "}, expected {" + b + "}";
  }
  return "";
}

// ------------------------------------------------------------ resolution ---
struct Tree {
  std::vector<std::string> dirs; // relative
  std::vector<std::string> files;
};

// trees: names over the alphabet letters, dot-names, files shadowing patterns,
// names sharing a prefix with the fs root's own name ("cg")
const std::vector<Tree>& trees() {
  static const std::vector<Tree> t = {
      {{"a", "b", "ab", "a/a", "a/b", "a/ab", "b/a", "a/a/b", ".a", ".a/b", "a/.b", "a.b", "a.b/a", "cg", "cg/a", "cgx"},
       {"ba", "a/ba", "b/b", "a/a/a", ".b", "a.b/b", "cgf"}},
      {{"b", "bb", "b/b", "b/b/b", "a..b", "a?", "a*"}, {"a", "ab", "b/a", "b.b"}},
      {{}, {"a", "b"}},
  };
  return t;
}

std::string g_treeRoot;
int g_treeBuilt = -1;

void buildTree(int ti) {
  if (g_treeBuilt == ti) return;
  Bypass bp;
  auto& P = Process::get();
  g_treeRoot = P.base + "/c16/cg";
  std::string cmd = "rm -rf '" + P.base + "/c16' && mkdir -p '" + g_treeRoot + "'";
  if (system(cmd.c_str()) != 0) {
  }
  const Tree& t = trees()[ti];
  for (auto& d : t.dirs) {
    std::string p = g_treeRoot;
    for (auto& comp : vpm::splitPath(d)) {
      p += "/" + comp;
      mkdir(p.c_str(), 0755);
    }
  }
  for (auto& f : t.files) {
    int fd = ::open((g_treeRoot + "/" + f).c_str(), O_CREAT | O_WRONLY, 0644);
    if (fd >= 0) ::close(fd);
  }
  // a sibling of the fs root sharing its name as a prefix
  mkdir((P.base + "/c16/cgroup2").c_str(), 0755);
  mkdir((P.base + "/c16/cgroup2/a").c_str(), 0755);
  // the same tree reachable through a relative cgroup fs root whose text ("b") recurs in cgroup names
  if (symlink("cg", (P.base + "/c16/b").c_str()) != 0) {
  }
  g_treeBuilt = ti;
}

bool navigational(const std::string& pat) {
  for (auto& c : vpm::splitPath(pat))
    if (c == "." || c == "..") return true;
  return false;
}

std::set<std::string> modelResolve(const Tree& t, const std::string& pat) {
  auto comps = vpm::splitPath(pat);
  std::set<std::string> dirset(t.dirs.begin(), t.dirs.end());
  // implicit parents
  for (auto& d : t.dirs) {
    auto c = vpm::splitPath(d);
    for (size_t i = 1; i < c.size(); i++) dirset.insert(vpm::joinPath(c, i));
  }
  std::set<std::string> cur = {""};
  for (auto& pc : comps) {
    std::set<std::string> next;
    for (auto& d : dirset) {
      auto c = vpm::splitPath(d);
      if (c.empty()) continue;
      std::string par = vpm::joinPath(c, c.size() - 1);
      if (!cur.count(par)) continue;
      if (vpm::wildMatch(pc, c.back())) next.insert(d);
    }
    cur = next;
  }
  return cur;
}

std::string checkResolve(int ti, const std::string& pat, bool* nontrivial) {
  buildTree(ti);
  const Tree& t = trees()[ti];
  Oomd::CgroupPath p(g_treeRoot, pat);
  std::set<std::string> got;
  auto res = p.resolveWildcard();
  for (auto& r : res) {
    if (r.cgroupFs() != g_treeRoot) return "resolveWildcard(\"" + pat + "\") returned a path with a different cgroup fs";
    // POSIX glob lets a ".*" component match the "." and ".." entries; these are
    // path navigation, not cgroup names (don't-care, as for literal "..")
    if (navigational(r.relativePath())) continue;
    got.insert(r.relativePath());
  }
  {
    std::set<std::string> all;
    for (auto& r : res)
      if (!all.insert(r.absolutePath()).second) return "resolveWildcard(\"" + pat + "\") returned duplicates";
  }
  auto want = modelResolve(t, pat);
  {
    // relative root: results are mapped back by the same rule
    Bypass bp;
    auto& P = Process::get();
    char cwd[4096];
    if (getcwd(cwd, sizeof cwd) && chdir((P.base + "/c16").c_str()) == 0) {
      Oomd::CgroupPath q("b", pat);
      std::set<std::string> got2;
      for (auto& r : q.resolveWildcard()) {
        if (navigational(r.relativePath())) continue;
        got2.insert(r.relativePath());
      }
      if (chdir(cwd) != 0) {
      }
      if (got2 != want) {
        std::string a, b;
        for (auto& x : got2) a += "\"" + x + "\" ";
        for (auto& x : want) b += "\"" + x + "\" ";
        return "tree " + std::to_string(ti) + " through the relative root \"b\": resolveWildcard(\"" + pat + "\") = {" + a + "}, existing matching directories are {" + b + "}";
      }
    }
  }
  if (got != want) {
    std::string a, b;
    for (auto& x : got) a += "\"" + x + "\" ";
    for (auto& x : want) b += "\"" + x + "\" ";
    return "tree " + std::to_string(ti) + ": resolveWildcard(\"" + pat + "\") = {" + a + "}, existing matching directories are {" + b + "}";
  }
  bool meta = pat.find_first_of("*?") != std::string::npos;
  if (meta && !want.empty()) {
    // a same-named plain file also matches the pattern?
    auto comps = vpm::splitPath(pat);
    for (auto& f : t.files) {
      auto fc = vpm::splitPath(f);
      if (fc.size() != comps.size()) continue;
      bool all = true;
      for (size_t i = 0; i < fc.size(); i++)
        if (!vpm::wildMatch(comps[i], fc[i])) all = false;
      if (all) *nontrivial = true;
    }
  }
  return "";
}

// ------------------------------------------------------------------ cases ---
// batches: {"kind":"unary","prefix":p,"len":L}      all strings prefix+suffix, |suffix|<=L
//          {"kind":"pattern","path":s,"len":L}      s against all patterns up to L
//          {"kind":"resolve","tree":i,"prefix":p,"len":L}
//          {"kind":"one", ...}                       single random case (gen mode)
Verdict run(const Json::Value& c) {
  Verdict v;
  std::string kind = c["kind"].asString();
  std::hash<std::string> H;
  if (kind == "unary") {
    auto sfx = allStrings(c["len"].asInt());
    std::string pre = c["prefix"].asString();
    v.weight = 0;
    for (auto& x : sfx) {
      std::string s = pre + x;
      for (const char* fs : {"/r", "/r/", "/"}) {
        std::string e = checkUnary(fs, s);
        v.weight++;
        if (!e.empty()) {
          v.fail(e);
          return v;
        }
      }
      std::string e = checkParseCgroup(s + "," + x);
      if (!e.empty()) {
        v.fail(e);
        return v;
      }
      // equality / hash against a differently spelled twin and a sibling
      e = checkEq("/r", s, "/r/", "/" + s + "/");
      if (e.empty()) e = checkEq("/r", s, "/r", x);
      if (e.empty()) e = checkEq("/r", s, "/", "r/" + s);
      // the same absolute path reached from a deeper cgroup fs root
      {
        auto comps = vpm::splitPath(s);
        for (size_t k = 1; k <= comps.size() && e.empty(); k++) {
          std::vector<std::string> rest(comps.begin() + k, comps.end());
          e = checkEq("/r", s, "/r/" + vpm::joinPath(comps, k), vpm::joinPath(rest, rest.size()));
        }
      }
      if (!e.empty()) {
        v.fail(e);
        return v;
      }
      if (s.find("//") != std::string::npos || (!s.empty() && (s[0] == '/' || s.back() == '/'))) v.sub_nontrivial.push_back(H("u" + s));
    }
    v.sample = c;
    return v;
  }
  if (kind == "pattern") {
    auto pats = allStrings(c["len"].asInt());
    std::string path = c["path"].asString();
    v.weight = 0;
    for (auto& p : pats) {
      std::string e = checkPattern(path, p);
      v.weight++;
      if (!e.empty()) {
        v.fail(e);
        return v;
      }
      if (p.find('*') != std::string::npos && !vpm::splitPath(path).empty()) v.sub_nontrivial.push_back(H("p" + path + "|" + p));
    }
    v.sample = c;
    return v;
  }
  if (kind == "resolve") {
    auto sfx = allStrings(c["len"].asInt());
    std::string pre = c["prefix"].asString();
    v.weight = 0;
    long skipped = 0;
    for (auto& x : sfx) {
      std::string pat = pre + x;
      if (navigational(pat)) {
        skipped++;
        continue;
      }
      bool nt = false;
      std::string e = checkResolve(c["tree"].asInt(), pat, &nt);
      v.weight++;
      if (!e.empty()) {
        v.fail(e);
        return v;
      }
      if (nt) v.sub_nontrivial.push_back(H("r" + std::to_string(c["tree"].asInt()) + pat));
    }
    if (skipped) v.labels.push_back("navigational_patterns_skipped");
    v.sample = c;
    return v;
  }
  if (kind == "one") {
    std::string a = c["a"].asString(), b = c["b"].asString();
    std::string e = checkUnary(c.get("fs", "/r").asString(), a);
    if (e.empty()) e = checkPattern(a, b);
    if (e.empty()) e = checkEq("/r", a, "/r", b);
    if (e.empty()) e = checkParseCgroup(a + "," + b);
    bool nt = false;
    if (e.empty() && !navigational(b)) e = checkResolve(c["tree"].asInt(), b, &nt);
    if (!e.empty()) v.fail(e);
    v.nontrivial = nt || b.find('*') != std::string::npos;
    return v;
  }
  v.discard = true;
  return v;
}

std::vector<Json::Value> fixedCases() {
  // quick: lengths 5/3/4, thorough: 6/4/5 (VP_C16_DEEP=1)
  bool deep = getenv("VP_C16_DEEP") != nullptr;
  int ulen = deep ? 6 : 5, plen = deep ? 4 : 3, rlen = deep ? 5 : 4;
  std::vector<Json::Value> out;
  // unary: split by the first two characters
  for (auto& pre : allStrings(2)) {
    if (pre.size() != 2 && !(pre.size() < 2)) continue;
    Json::Value c(Json::objectValue);
    c["kind"] = "unary";
    c["prefix"] = pre;
    c["len"] = pre.size() == 2 ? ulen - 2 : 0;
    out.push_back(c);
  }
  for (auto& path : allStrings(plen)) {
    Json::Value c(Json::objectValue);
    c["kind"] = "pattern";
    c["path"] = path;
    c["len"] = plen;
    out.push_back(c);
  }
  for (int ti = 0; ti < (int)trees().size(); ti++)
    for (auto& pre : allStrings(2)) {
      Json::Value c(Json::objectValue);
      c["kind"] = "resolve";
      c["tree"] = ti;
      c["prefix"] = pre;
      c["len"] = pre.size() == 2 ? rlen - 2 : 0;
      out.push_back(c);
    }
  return out;
}

Json::Value gen() {
  using namespace vpgen;
  auto str = [&](int maxlen) {
    std::string s;
    int n = R(0, maxlen);
    static const std::string alpha = "ab/*?.-_cg[]{},\\";
    for (int i = 0; i < n; i++) s += W({80, 20}) == 0 ? kAlpha[R(0, 5)] : alpha[R(0, (int)alpha.size() - 1)];
    return s;
  };
  Json::Value c(Json::objectValue);
  c["kind"] = "one";
  c["a"] = str(16);
  // patterns for resolution stay within plain glob syntax over the alphabet
  std::string b;
  int n = R(0, 12);
  for (int i = 0; i < n; i++) b += kAlpha[R(0, 5)];
  c["b"] = b;
  c["fs"] = oneOf(std::vector<std::string>{"/r", "/r/", "/", "/r/s/"});
  c["tree"] = R(0, (int)trees().size() - 1);
  return c;
}

} // namespace

int main(int argc, char** argv) {
  HarnessDef d;
  d.prop = "C16";
  d.gen = gen;
  d.run = run;
  d.fixed = fixedCases;
  return harnessMain(argc, argv, d);
}
