// C17 Kill accounting: xattrs, counter, kmsg record and return value match the
// deed (DESIGN.md §C17).
#include "killcommon.h"

using namespace vp;
using namespace vpk;

// VP_PROP=C06: the same harness as a sub-campaign of C06 (a real kill plugin suspended on its prekill
// hook): hooks always configured, detectors mostly silent after the chain fired
static bool c06mode() {
  const char* p = getenv("VP_PROP");
  return p && std::string(p) == "C06";
}

static Json::Value gen() {
  KillOpts o;
  o.min_ticks = 2;
  o.dry_pct = 15;
  o.always_continue_pct = c06mode() ? 40 : 25;
  o.two_rulesets_pct = 20;
  o.ops_pct = 25;
  o.fire_pct = c06mode() ? 45 : 85;
  if (c06mode()) o.min_ticks = 4;
  o.prof.unkillable_pct = 15;
  o.prof.oomd_xattr_pct = 25;
  Json::Value sc = genKillScenario(o);
  // a prekill hook that needs a few polls: the action answers ASYNC_PAUSED while it waits
  if (c06mode() || P(30)) {
    Json::Value h(Json::objectValue);
    h["name"] = "vp_hook";
    h["args"]["id"] = "h0";
    h["args"]["cgroup"] = P(70) ? "/" : "*,*/*,*/*/*";
    sc["config"]["prekill_hooks"].append(h);
    Json::Value polls(Json::arrayValue);
    int n = R(1, 3);
    for (int i = 0; i < n; i++) polls.append(P(25) ? 0 : (P(85) ? R(1, 4) : -1));
    sc["scripts"]["hooks"]["h0"]["polls"] = polls;
    sc["meta"]["hook"] = true;
  }
  // victims whose memory.pressure cannot be read (PSI off, file gone): the kill record carries zeros then,
  // it is written all the same
  if (P(35))
    for (auto& cg : sc["world"]["cgs"])
      if (!cg["path"].asString().empty() && P(25)) cg["faults"]["memory.pressure"] = oneOf(std::vector<std::string>{"absent", "unreadable", "empty"});
  // a second detector group per ruleset: the kill record names the group that fired the chain, which need
  // not be the one firing when a suspended kill is completed
  if (P(40)) {
    int nt = (int)sc["ticks"].size();
    for (Json::ArrayIndex i = 0; i < sc["config"]["rulesets"].size(); i++) {
      Json::Value det(Json::objectValue);
      det["name"] = "vp_detector";
      det["args"]["id"] = "x" + std::to_string(i);
      Json::Value dg(Json::arrayValue);
      dg.append("dgx" + std::to_string(i));
      dg.append(det);
      sc["config"]["rulesets"][i]["detectors"].append(dg);
      for (int t = 0; t < nt; t++) sc["scripts"]["detectors"]["x" + std::to_string(i)].append(P(50) ? "C" : "S");
    }
    sc["meta"]["two_groups"] = true;
  }
  // repeated kills: short ruleset delays; pre-existing counters; silence-logs
  for (auto& rs : sc["config"]["rulesets"]) {
    if (P(70)) rs["post_action_delay"] = "0";
    for (auto& a : rs["actions"]) {
      if (a["args"].isMember("post_action_delay") && P(70)) a["args"]["post_action_delay"] = "0";
    }
    if (sc["meta"].get("hook", false).asBool() && P(70)) rs["prekill_hook_timeout"] = std::to_string(R(0, 12));
    int sl = W({50, 15, 20, 15});
    if (sl == 1) rs["silence-logs"] = "engine";
    if (sl == 2) rs["silence-logs"] = "plugins";
    if (sl == 3) rs["silence-logs"] = "engine,plugins";
  }
  // kernfs-style 64-bit cgroup identities (generation in the upper half, slot recycled per path)
  if (P(25)) sc["virt_ino"] = true;
  return sc;
}

static Verdict run(const Json::Value& sc) {
  Verdict v;
  RunResult R = runDaemon(sc);
  if (!R.config_ok) {
    v.discard = true;
    return v;
  }
  if (!R.exception.empty()) v.labels.push_back("exception");
  auto invs = segment(R);
  const Json::Value& rulesets = sc["config"]["rulesets"];
  // xattr value model keyed by (inode, name)
  std::map<std::pair<uint64_t, std::string>, long long> xval;
  auto cur = [&](uint64_t ino, const std::string& name) -> long long {
    auto it = xval.find({ino, name});
    if (it != xval.end()) return it->second;
    auto ix = R.initial_xattrs.find(ino);
    if (ix != R.initial_xattrs.end()) {
      auto jt = ix->second.find(name);
      if (jt != ix->second.end()) return atoll(jt->second.c_str());
    }
    return 0;
  };
  std::set<std::string> uuids;
  int expectedKills = 0;
  std::map<int, int> lastRun; // ruleset -> last tick its kill plugin ran
  std::map<int, bool> expectResume;
  std::map<int, std::string> chainDg; // ruleset -> detector group that fired the current chain
  std::map<int, bool> resumeDue; // ruleset -> its kill action answered ASYNC_PAUSED (hook) last tick
  std::map<int, bool> hookOutstanding; // ruleset -> a prekill hook invocation object is alive
  std::map<uint64_t, int> attemptsPerCgroup;
  for (auto& inv : invs) {
    if (inv.rs >= (int)rulesets.size()) continue;
    const Json::Value& ka = killActionOf(rulesets[inv.rs]);
    const Json::Value& args = ka["args"];
    std::string plugin = ka["name"].asString();
    bool dry = args.get("dry", "false").asString() == "true";
    bool kernelkill = args.get("kernelkill", "false").asString() == "true";
    bool always = args.get("always_continue", "false").asString() == "true";
    std::string where = " (tick " + std::to_string(inv.tick) + ", ruleset " + std::to_string(inv.rs) + ", " + plugin + ")";
    // is the action still waiting for its prekill hook when this tick's run ends? An invocation object
    // exists from "fire" to "destroy" (it is destroyed before the first signal and when the plugin gives
    // up on it); it may live across ticks
    bool sawHook = false;
    for (auto* e : inv.all) {
      if (e->k != "hook") continue;
      sawHook = true;
      if (e->s == "fire") hookOutstanding[inv.rs] = true;
      if (e->s == "destroy") hookOutstanding[inv.rs] = false;
    }
    bool waiting = hookOutstanding[inv.rs];
    if (resumeDue[inv.rs] && !sawHook && inv.attempts.empty() && inv.kmsg.empty()) {
      v.fail("the kill action suspended on its prekill hook at the previous tick was not run again" + where);
      break;
    }
    resumeDue[inv.rs] = false;
    // the group that fired this chain: decided at the tick the chain started (its first action ran)
    if (inv.pre_ran) {
      const Json::Value& ds = sc["scripts"]["detectors"]["d" + std::to_string(inv.rs)];
      bool first = ds.isArray() ? (inv.tick < (int)ds.size() && ds[inv.tick].asString() != "S") : ds.asString() != "S";
      chainDg[inv.rs] = (first ? "dg" : "dgx") + std::to_string(inv.rs);
    }
    bool ran = inv.pre_ran || expectResume[inv.rs] || !inv.attempts.empty() || sawHook;
    bool resumed = expectResume[inv.rs];
    expectResume[inv.rs] = false;
    // kmsg "oomd kill" lines of this invocation
    std::vector<std::string> klines;
    for (auto& l : inv.kmsg)
      if (l.compare(0, 10, "oomd kill:") == 0) klines.push_back(l);
    int signalledAttempts = 0;
    for (auto& a : inv.attempts) {
      std::string aw = " while killing '" + a.victim + "'" + where;
      if (dry) {
        v.fail("xattr written in dry mode" + aw);
        break;
      }
      attemptsPerCgroup[a.victim_ino]++;
      if (a.uuid.empty() || !uuids.insert(a.uuid).second) v.fail("kill uuid '" + a.uuid + "' is empty or was used by an earlier attempt" + aw);
      // expected xattr writes, in any order but with exact values
      std::map<std::string, std::string> written;
      for (auto* e : a.evs) {
        if (e->k != "setxattr") continue;
        if (written.count(e->s)) v.fail("xattr " + e->s + " written twice in one attempt" + aw);
        written[e->s] = e->s2;
        if (e->ret != 0) v.labels.push_back("setxattr_failed");
      }
      auto expectX = [&](const std::string& name, const std::string& val) {
        auto it = written.find(name);
        if (it == written.end()) {
          v.fail("xattr " + name + " not written" + aw);
        } else if (it->second != val) {
          v.fail("xattr " + name + " set to '" + it->second + "', expected '" + val + "'" + aw);
        }
      };
      expectX("trusted.oomd_kill_uuid", a.uuid);
      expectX("user.oomd_kill_uuid", a.uuid);
      for (const char* ns : {"trusted.", "user."}) {
        std::string n = std::string(ns) + "oomd_ooms";
        long long prev = cur(a.victim_ino, n);
        expectX(n, std::to_string(prev + 1));
        xval[{a.victim_ino, n}] = prev + 1;
        std::string k = std::string(ns) + "oomd_kill";
        long long pk = cur(a.victim_ino, k);
        auto it = written.find(k);
        if (kernelkill) {
          // oomd sends no SIGKILL itself: only "increased by >= 1 iff killed"
          if (it != written.end()) {
            long long nv = atoll(it->second.c_str());
            if (a.cgkill_ok && nv < pk + 1) v.fail("xattr " + k + " did not increase after cgroup.kill" + aw);
            if (!a.cgkill_ok && nv != pk) v.fail("xattr " + k + " changed although nothing was killed" + aw);
            xval[{a.victim_ino, k}] = nv;
          } else if (a.cgkill_ok) {
            v.fail("xattr " + k + " not written after cgroup.kill" + aw);
          }
        } else {
          expectX(k, std::to_string(pk + a.sig_ok));
          xval[{a.victim_ino, k}] = pk + a.sig_ok;
        }
      }
      if (a.signalled()) signalledAttempts++;
      if (a.sig_ok > 0 && a.sig_fail > 0) v.nontrivial = true;
      if (attemptsPerCgroup[a.victim_ino] >= 2) v.nontrivial = true;
    }
    if (!v.ok) break;
    // counter and kmsg record
    if (!dry) {
      expectedKills += signalledAttempts;
      if ((int)klines.size() != signalledAttempts) {
        v.fail(std::to_string(klines.size()) + " 'oomd kill' kmsg records for " + std::to_string(signalledAttempts) + " attempts that signalled a process" + where);
      }
    } else {
      if (klines.size() > 1) v.fail("several dry kill records in one invocation" + where);
    }
    for (auto& l : klines) {
      std::string victim = inv.attempts.empty() ? "" : inv.attempts.back().victim;
      std::string rsn = "ruleset:[rs" + std::to_string(inv.rs) + "]";
      std::string dgn = "detectorgroup:[" + (chainDg.count(inv.rs) ? chainDg[inv.rs] : "dg" + std::to_string(inv.rs)) + "]";
      std::string killer = std::string("killer:") + (dry ? "(dry)" : "") + plugin;
      if (l.find(rsn) == std::string::npos) v.fail("kill record lacks " + rsn + ": " + l + where);
      if (l.find(dgn) == std::string::npos) v.fail("kill record lacks " + dgn + ": " + l + where);
      if (l.find(killer) == std::string::npos) v.fail("kill record lacks '" + killer + "': " + l + where);
      if (!dry && l.find(" " + victim + " ") == std::string::npos) v.fail("kill record does not name victim '" + victim + "': " + l + where);
      if (!dry && l.find("(dry)") != std::string::npos) v.fail("wet kill marked (dry)" + where);
    }
    // return value, observed through the next action
    if (ran) {
      bool pgscanFirst = plugin == "kill_by_pg_scan" && !(lastRun.count(inv.rs) && lastRun[inv.rs] == inv.tick - 1);
      lastRun[inv.rs] = inv.tick;
      if (pgscanFirst) {
        if (!inv.attempts.empty() || !klines.empty()) v.fail("kill_by_pg_scan killed on its first sampling tick" + where);
        if (inv.after_ran) v.fail("kill_by_pg_scan did not pause on its first sampling tick" + where);
        expectResume[inv.rs] = true;
        v.labels.push_back("pgscan_two_tick");
      } else if (waiting) {
        if (inv.after_ran) v.fail(std::string("next action ran although the kill action is still waiting for its prekill hook") + (always ? " (always_continue)" : "") + where);
        if (!klines.empty()) v.fail("kill record written while the prekill hook has not finished" + where);
        expectResume[inv.rs] = true;
        resumeDue[inv.rs] = true;
        v.labels.push_back("waiting_for_hook");
        if (always) v.nontrivial = true;
      } else {
        bool killed = dry ? !klines.empty() : signalledAttempts > 0;
        bool expectAfter = !killed || always;
        if (inv.after_ran != expectAfter) {
          v.fail(std::string("next action ") + (inv.after_ran ? "ran" : "did not run") + " although the kill action " + (killed ? "killed" : "killed nothing") + (always ? " (always_continue)" : "") + where);
        }
      }
      if (resumed) v.labels.push_back("resumed");
    }
    if (dry && !klines.empty()) v.labels.push_back("dry_selected");
    if (signalledAttempts) v.labels.push_back("wet_kill");
  }
  if (v.ok && R.exception.empty()) {
    int kills = R.stats_after.count("oomd.kills") ? R.stats_after["oomd.kills"] : 0;
    if (kills != expectedKills) v.fail("oomd.kills is " + std::to_string(kills) + " after " + std::to_string(expectedKills) + " attempts that signalled a process");
  }
  return v;
}

int main(int argc, char** argv) {
  HarnessDef d;
  d.prop = getenv("VP_PROP") ? getenv("VP_PROP") : "C17";
  d.gen = gen;
  d.run = run;
  return harnessMain(argc, argv, d);
}
