// C18 Senpai throttling stays within its floor/ceiling and respects its guards
// (DESIGN.md §C18): invariants over every control-file write of each tick.
#include "core.h"
#include "gen_common.h"
#include "statmodel.h"

using namespace vp;
using namespace vpgen;

namespace {

const std::vector<std::string> kMatched = {"s/a", "s/b", "s/c", "s/d", "s/e"};

Cg genSenpaiCg(const std::string& path, bool hightmp, bool reclaim) {
  Cg c;
  c.path = path;
  int64_t usage = (R64(1, int64_t(1) << 22)) << 12; // up to 16 GiB, page aligned
  c.mem_current = usage;
  int64_t file = (R64(0, usage >> 12)) << 12;
  int64_t afile = (R64(0, file >> 12)) << 12;
  int64_t anon = usage - file;
  int64_t aanon = (R64(0, anon >> 12)) << 12;
  c.stat = {{"anon", anon}, {"file", file}, {"active_file", afile}, {"inactive_file", file - afile}, {"active_anon", aanon}, {"inactive_anon", anon - aanon}, {"pgscan", 0}};
  if (P(30)) c.mem_min = (R64(0, usage >> 12)) << 12;
  if (P(25)) c.mem_high = (R64(usage >> 13, (usage >> 12) * 2)) << 12;
  if (P(25)) c.mem_max = (R64(usage >> 13, (usage >> 12) * 2)) << 12;
  if (P(50)) c.swap_current = (R64(0, 1 << 20)) << 12;
  if (P(40)) c.swap_max = (R64(0, 1 << 21)) << 12;
  c.has_high_tmp = hightmp;
  c.has_reclaim = reclaim;
  c.mem_psi = genPsi();
  c.io_psi = genPsi();
  // `some` averages around the immediate-backoff targets (hundredths of %)
  for (int i = 0; i < 3; i++) {
    c.mem_psi.some[i] = W({55, 45}) == 0 ? R(0, 9) : R(10, 300);
    c.io_psi.some[i] = W({60, 40}) == 0 ? R(0, 9) : R(10, 300);
    c.mem_psi.full[i] = 0;
    c.io_psi.full[i] = 0;
  }
  c.mem_psi.some_total = (uint64_t)R64(0, 1 << 30);
  c.reclaim_eff = P(70) ? 100 : R(0, 99);
  c.pids.push_back(1);
  return c;
}

Json::Value gen() {
  Json::Value sc(Json::objectValue);
  bool hightmp = P(50), reclaim = P(50);
  World w;
  Cg root;
  root.stat = {{"anon", 0}, {"file", 0}, {"pgscan", 0}};
  w.cgs.push_back(root);
  Cg s = genSenpaiCg("s", hightmp, reclaim);
  s.pids.clear();
  s.swap_max = P(50) ? kMax : (R64(0, 1 << 22)) << 12;
  w.cgs.push_back(s);
  Cg n = genSenpaiCg("n", hightmp, reclaim);
  w.cgs.push_back(n);
  w.cgs.push_back(genSenpaiCg("n/x", hightmp, reclaim));
  std::map<std::string, bool> exists, hidden;
  int pid = 10;
  for (auto& p : kMatched) {
    exists[p] = P(65);
    if (exists[p]) {
      Cg c = genSenpaiCg(p, hightmp, reclaim);
      c.pids = {pid++};
      w.cgs.push_back(c);
    }
  }
  WorldGen wg;
  wg.genHost();
  w.host = wg.w.host;
  int64_t memtotal_kb = R64(int64_t(1) << 20, int64_t(1) << 26);
  for (auto& kv : w.host.meminfo)
    if (kv.first == "MemTotal") kv.second = memtotal_kb;
  w.host.swaps.clear();
  if (P(70)) {
    int64_t t = R64(1, int64_t(1) << 24);
    w.host.swaps.push_back({t, R64(0, t)});
  }
  w.host.swappiness = P(20) ? 0 : R(1, 100);
  sc["world"] = w.toJson();
  Json::Value a(Json::objectValue);
  a["name"] = "senpai";
  Json::Value& args = a["args"];
  args["cgroup"] = oneOf(std::vector<std::string>{"s/*", "s/a,s/b", "s/?", "s/a", "s/c,s/d,s/e"});
  bool immediate = P(50);
  if (immediate) args["immediate_backoff"] = "true";
  if (P(60)) args["limit_min_bytes"] = std::to_string((R64(0, 1 << 18)) << 12);
  if (P(60)) args["limit_max_bytes"] = std::to_string((R64(0, 1 << 22)) << 12);
  args["interval"] = std::to_string(R(0, 3));
  if (P(50)) args["pressure_ms"] = std::to_string(R(1, 100));
  if (P(40)) args["pressure_pct"] = oneOf(std::vector<std::string>{"0.1", "0.05", "1", "0.5"});
  if (P(40)) args["io_pressure_pct"] = oneOf(std::vector<std::string>{"0.1", "0.05", "1", "0.5"});
  if (P(50)) args["max_probe"] = oneOf(std::vector<std::string>{"0.01", "0.1", "0.5", "0.001"});
  if (P(40)) args["max_backoff"] = oneOf(std::vector<std::string>{"1.0", "0.5", "2"});
  if (P(30)) args["coeff_probe"] = oneOf(std::vector<std::string>{"10", "2", "1"});
  if (P(30)) args["coeff_backoff"] = oneOf(std::vector<std::string>{"20", "5", "1"});
  if (P(50)) args["swap_validation"] = "true";
  if (P(50)) args["swap_threshold"] = oneOf(std::vector<std::string>{"0.8", "0.5", "0.1", "0.99"});
  if (P(35)) args["modulate_swappiness"] = "true";
  if (P(25)) args["memory_high_timeout_ms"] = std::to_string(R(50, 500));
  if (P(20)) args["log_interval"] = std::to_string(R(1, 5));
  Json::Value rs(Json::objectValue);
  rs["name"] = "rs";
  Json::Value dg(Json::arrayValue);
  dg.append("g");
  Json::Value d(Json::objectValue);
  d["name"] = "vp_detector";
  d["args"]["id"] = "d";
  dg.append(d);
  rs["detectors"].append(dg);
  rs["actions"].append(a);
  rs["post_action_delay"] = "0";
  Json::Value cfg(Json::objectValue);
  cfg["rulesets"].append(rs);
  sc["config"] = cfg;
  sc["interval"] = 5;
  Json::Value scripts(Json::objectValue);
  scripts["detectors"]["d"] = "C";
  sc["scripts"] = scripts;
  int nticks = R(6, 25);
  World view = w;
  Json::Value ticks(Json::arrayValue);
  for (int t = 0; t < nticks; t++) {
    Json::Value tick(Json::objectValue);
    tick["adv_ms"] = 5000;
    Json::Value ops(Json::arrayValue);
    if (t > 0) {
      for (auto& p : kMatched) {
        int what = W({52, 28, 7, 6, 7});
        if (what == 4) {
          // renamed out of senpai's reach and back: the same cgroup (inode), but
          // it was not tracked in between
          std::string away = "n/" + p.substr(p.rfind('/') + 1) + "_away";
          Op mv;
          mv.op = "mv";
          if (exists[p] && !hidden[p]) {
            mv.path = p;
            mv.to = away;
            hidden[p] = true;
            exists[p] = false;
            ops.append(mv.toJson());
          } else if (hidden[p]) {
            mv.path = away;
            mv.to = p;
            hidden[p] = false;
            exists[p] = true;
            ops.append(mv.toJson());
          }
          continue;
        }
        if (hidden[p]) continue; // the name is free but the cgroup lives elsewhere
        if (what == 1 && exists[p]) {
          // pressure totals move on; sometimes usage too (something else wrote
          // limits is NOT generated: memory.high stays what senpai set)
          tick["psi"][p] = (Json::Int64)(P(50) ? R64(0, 2000) : R64(2000, 2000000));
          if (P(30)) tick["usage"][p] = (Json::Int64)((R64(1, int64_t(1) << 22)) << 12);
        } else if (what == 2) {
          if (exists[p]) {
            Op op;
            op.op = "rm";
            op.path = p;
            ops.append(op.toJson());
            exists[p] = false;
          } else {
            Op op;
            op.op = "mk";
            op.cg = genSenpaiCg(p, hightmp, reclaim);
            op.cg.pids = {pid++};
            ops.append(op.toJson());
            exists[p] = true;
          }
        } else if (what == 3 && exists[p]) {
          // removed and re-created under the same name between two ticks
          Op rm;
          rm.op = "rm";
          rm.path = p;
          ops.append(rm.toJson());
          Op mk;
          mk.op = "mk";
          mk.cg = genSenpaiCg(p, hightmp, reclaim);
          mk.cg.pids = {pid++};
          ops.append(mk.toJson());
        }
      }
    }
    tick["ops"] = ops;
    ticks.append(tick);
  }
  sc["ticks"] = ticks;
  (void)view;
  // kernfs-style 64-bit cgroup identities (generation in the upper half, slot recycled per path)
  if (P(25)) sc["virt_ino"] = true;
  return sc;
}

struct Args {
  bool immediate{false};
  int64_t limit_min{100ll << 20}, limit_max{10ll << 30};
  double max_probe{0.01};
  double mem_pct{0.1}, io_pct{0.1};
  double swap_threshold{0.8};
  bool swap_validation{false}, modulate{false};
};

Verdict run(const Json::Value& sc) {
  Verdict v;
  DaemonHooks hooks;
  // per-tick PSI / usage drift is applied on the live world (keeps whatever
  // limits senpai wrote, which a "set" op generated in advance could not know)
  hooks.on_tick = [&](Sim& sim, int t) {
    const Json::Value& tk = sc["ticks"][t];
    for (const char* what : {"psi", "usage"}) {
      if (!tk.isMember(what)) continue;
      for (auto& p : tk[what].getMemberNames()) {
        Cg* c = sim.world().find(p);
        if (!c) continue;
        Op op;
        op.op = "set";
        op.cg = *c;
        op.cg.pids.clear();
        if (std::string(what) == "psi") {
          op.cg.mem_psi.some_total += (uint64_t)tk[what][p].asInt64();
        } else {
          int64_t u = tk[what][p].asInt64();
          // keep the memory.stat split consistent with the new usage
          int64_t old = op.cg.mem_current;
          op.cg.mem_current = u;
          for (auto& kv : op.cg.stat) {
            if (kv.first == "pgscan") continue;
            kv.second = old > 0 ? (int64_t)((__int128)kv.second * u / old) & ~int64_t(0xFFF) : 0;
          }
        }
        sim.apply(op);
      }
    }
  };
  // world snapshots must include the drift: re-snapshot after on_tick
  std::vector<World> worlds;
  std::vector<std::map<std::string, uint64_t>> inodes;
  auto orig = hooks.on_tick;
  hooks.on_tick = [&](Sim& sim, int t) {
    orig(sim, t);
    worlds.push_back(sim.world());
    std::map<std::string, uint64_t> ino;
    for (auto& c : sim.world().cgs) ino[c.path] = sim.inode(c.path);
    inodes.push_back(ino);
  };
  RunResult R = runDaemon(sc, &hooks);
  if (!R.config_ok) {
    v.fail("senpai configuration rejected: " + R.config_error + " " + jstr(sc["config"]["rulesets"][0]["actions"][0]["args"]));
    return v;
  }
  if (!R.exception.empty()) {
    v.fail(R.exception);
    return v;
  }
  const Json::Value& ja = sc["config"]["rulesets"][0]["actions"][0]["args"];
  Args A;
  A.immediate = ja.get("immediate_backoff", "false").asString() == "true";
  if (ja.isMember("limit_min_bytes")) A.limit_min = atoll(ja["limit_min_bytes"].asCString());
  if (ja.isMember("limit_max_bytes")) A.limit_max = atoll(ja["limit_max_bytes"].asCString());
  if (ja.isMember("max_probe")) A.max_probe = atof(ja["max_probe"].asCString());
  if (ja.isMember("pressure_pct")) A.mem_pct = atof(ja["pressure_pct"].asCString());
  if (ja.isMember("io_pressure_pct")) A.io_pct = atof(ja["io_pressure_pct"].asCString());
  if (ja.isMember("swap_threshold")) A.swap_threshold = atof(ja["swap_threshold"].asCString());
  A.swap_validation = ja.get("swap_validation", "false").asString() == "true";
  A.modulate = ja.get("modulate_swappiness", "false").asString() == "true";
  int64_t memTotal = World::fromJson(sc["world"]).host.mem("MemTotal") * 1024;
  std::set<uint64_t> seenIdentity; // cgroup identities senpai has written a limit for
  std::set<uint64_t> trackedPrev; // identities its cgroup argument matched on the previous tick
  int nticks = (int)worlds.size();
  for (int t = 0; t < nticks && v.ok; t++) {
    const World& w = worlds[t];
    auto matched = vpm::resolveArg(w, ja["cgroup"].asString());
    vps::SysCtx sys = vps::sysOf(w);
    int swappiness0 = w.host.swappiness;
    int lastSwappiness = -1;
    bool wroteSwappiness = false;
    std::map<std::string, std::vector<const Ev*>> byCg;
    for (auto& e : R.trace) {
      if (e.tick != t || e.k != "write") continue;
      std::string at = " at tick " + std::to_string(t);
      if (e.p == R.cgroot.substr(0, R.cgroot.size() - 3) + "/proc/sys/vm/swappiness") {
        if (!A.modulate) v.fail("swappiness written without modulate_swappiness" + at);
        wroteSwappiness = true;
        lastSwappiness = atoi(e.s.c_str());
        continue;
      }
      auto pos = e.p.rfind('/');
      std::string dir = relOf(R.cgroot, e.p.substr(0, pos));
      std::string file = e.p.substr(pos + 1);
      if (!matched.count(dir)) {
        v.fail("senpai wrote " + file + " of '" + dir + "', which its cgroup argument " + ja["cgroup"].asString() + " does not match" + at);
        break;
      }
      if (file != "memory.high" && file != "memory.high.tmp" && file != "memory.reclaim") {
        v.fail("senpai wrote unexpected control file " + file + " of '" + dir + "'" + at);
        break;
      }
      byCg[dir].push_back(&e);
    }
    if (!v.ok) break;
    if (wroteSwappiness && lastSwappiness != swappiness0) {
      v.fail("system swappiness left at " + std::to_string(lastSwappiness) + " (was " + std::to_string(swappiness0) + ") at tick " + std::to_string(t));
      break;
    }
    for (auto& kv : byCg) {
      const Cg* c = w.find(kv.first);
      std::string at = " of '" + kv.first + "' at tick " + std::to_string(t);
      int64_t usage = c->mem_current;
      // floor: unreclaimable + limit_min_bytes, at least memory.min
      vps::EffSwap es = vps::effSwap(w, kv.first);
      int64_t fileCache = c->statv("active_file") + c->statv("inactive_file");
      int64_t swappable = 0;
      if (sys.swaptotal > 0 && swappiness0 > 0 && es.free > 0) swappable = std::min(es.free, c->statv("active_anon") + c->statv("inactive_anon"));
      int64_t floor_ = std::max(A.limit_min + (usage - (fileCache + swappable)), c->mem_min);
      int64_t ceiling = std::min(memTotal, A.limit_max + usage);
      if (c->has_high_tmp) ceiling = std::min(ceiling, c->mem_high);
      ceiling = std::min(ceiling, c->mem_max);
      uint64_t ident = inodes[t].count(kv.first) ? inodes[t][kv.first] : 0;
      // senpai keeps state only for what its cgroup argument matched on its previous run
      bool firstForIdentity = !trackedPrev.count(ident);
      if (firstForIdentity && seenIdentity.count(ident)) v.labels.push_back("same_cgroup_tracked_again");
      bool pokePending = false;
      size_t idx = 0;
      for (auto* e : kv.second) {
        auto pos = e->p.rfind('/');
        std::string file = e->p.substr(pos + 1);
        std::string tok = e->s.substr(0, e->s.find(' '));
        bool isMax = tok == std::to_string(INT64_MAX) || tok == "max";
        int64_t val = isMax ? INT64_MAX : atoll(tok.c_str());
        if (file == "memory.reclaim" || (A.immediate && !isMax)) {
          // a reclaim request, or the memory.high poke standing in for it
          if (!A.immediate) {
            v.fail("memory.reclaim written outside immediate_backoff mode" + at);
            break;
          }
          int64_t size = file == "memory.reclaim" ? val : usage - val;
          if (file != "memory.reclaim") pokePending = true;
          double bound = A.max_probe * (double)(usage - floor_);
          if (usage <= floor_) {
            v.fail("reclaim of " + std::to_string(size) + " bytes although usage " + std::to_string(usage) + " is not above the floor " + std::to_string(floor_) + at);
            break;
          }
          if ((double)size > bound + 1.0) {
            v.fail("reclaim of " + std::to_string(size) + " bytes exceeds max_probe x (usage - floor) = " + std::to_string(bound) + at);
            break;
          }
          double mp = std::max(c->mem_psi.some[0], c->mem_psi.some[1]) / 100.0;
          double ip = std::max(c->io_psi.some[0], c->io_psi.some[1]) / 100.0;
          // (a value within 1e-6 of the target is a don't-care: float vs double)
          if (mp >= A.mem_pct + 1e-6) {
            v.fail("reclaim although memory some-pressure " + std::to_string(mp) + " is not below the target " + std::to_string(A.mem_pct) + at);
            break;
          }
          if (ip >= A.io_pct + 1e-6) {
            v.fail("reclaim although io some-pressure " + std::to_string(ip) + " is not below the target " + std::to_string(A.io_pct) + at);
            break;
          }
          if (A.swap_validation && sys.swaptotal > 0 && swappiness0 > 0 && es.max != 0 && !es.utilDontCare) {
            if (es.util > A.swap_threshold + 1e-9) {
              v.fail("reclaim although effective swap utilisation " + std::to_string(es.util) + " is not below swap_threshold " + std::to_string(A.swap_threshold) + at);
              break;
            }
          }
          v.labels.push_back("reclaim");
          v.nontrivial = true;
        } else if (isMax) {
          if (!pokePending) {
            v.fail(file + " reset to max without a preceding poke" + at);
            break;
          }
          pokePending = false;
        } else {
          // a limit
          bool isUsage = val == usage;
          bool aligned = (val & 0xFFF) == 0;
          bool inRange = aligned && val >= floor_ - 4095 && val <= std::max(ceiling, floor_);
          if (firstForIdentity && idx == 0) {
            if (!isUsage) {
              v.fail("first limit written for a newly tracked cgroup is " + std::to_string(val) + ", its usage is " + std::to_string(usage) + at);
              break;
            }
          } else if (!isUsage && !inRange) {
            v.fail("limit " + std::to_string(val) + " is neither the usage " + std::to_string(usage) + " nor within [floor " + std::to_string(floor_) + " - 4095, ceiling " + std::to_string(ceiling) + "]" + (aligned ? "" : " (not 4 KiB aligned)") + at);
            break;
          }
          if (!isUsage) {
            v.nontrivial = true;
            v.labels.push_back("adjusted_limit");
          }
        }
        idx++;
      }
      if (!v.ok) break;
      if (pokePending) {
        v.fail("memory.high poke not reset to max in the same tick" + at);
        break;
      }
      seenIdentity.insert(ident);
    }
    trackedPrev.clear();
    for (auto& m : matched)
      if (inodes[t].count(m)) trackedPrev.insert(inodes[t][m]);
  }
  return v;
}

} // namespace

int main(int argc, char** argv) {
  HarnessDef d;
  d.prop = "C18";
  d.gen = gen;
  d.run = run;
  return harnessMain(argc, argv, d);
}
