// C19 Stats service: atomic counters, total protocol, clean shutdown
// (DESIGN.md §C19). Sub-checks "lin" (linearizability of observed histories of
// small concurrent programs), "bulk" (no lost increments), "proto" (every
// client session gets at most one well-formed reply; server stays usable;
// destructor completes). Built with TSan and with ASan.
#include "core.h"
#include "gen_common.h"

#include <poll.h>
#include <sys/socket.h>
#include <sys/un.h>
#include <unistd.h>
#include <atomic>
#include <thread>

#include "oomd/Stats.h"

#include <dlfcn.h>
#include <cerrno>

// accept(2) as the stats server sees it: the k-th call of a case can be made to fail with a generated errno (a
// full descriptor table, memory pressure, a client that gave up while queued, an interrupting signal). The call is
// failed without entering the kernel, so the connection that was waiting stays queued and the next accept() gets
// it: a server that keeps accepting serves every client as before.
static std::atomic<int> g_acceptCalls{0};
static std::atomic<int> g_acceptFailAt[3] = {{-1}, {-1}, {-1}};
static std::atomic<int> g_acceptErrno[3] = {{0}, {0}, {0}};
static std::atomic<int> g_acceptFailed{0};
#if defined(__has_feature)
#if __has_feature(thread_sanitizer)
#define VP_TSAN_BUILD 1
// the sanitizer's own interceptor keeps its per-descriptor synchronisation state; going around it makes every
// reuse of a descriptor number look like a race on the descriptor
extern "C" int __interceptor_accept(int, struct sockaddr*, socklen_t*);
#endif
#endif
extern "C" int accept(int fd, struct sockaddr* addr, socklen_t* len) {
#ifdef VP_TSAN_BUILD
  static auto real = &__interceptor_accept;
#else
  static auto real = reinterpret_cast<int (*)(int, struct sockaddr*, socklen_t*)>(dlsym(RTLD_NEXT, "accept"));
#endif
  int k = g_acceptCalls.fetch_add(1);
  for (int i = 0; i < 3; i++)
    if (g_acceptFailAt[i].load() == k) {
      g_acceptFailed.fetch_add(1);
      errno = g_acceptErrno[i].load();
      return -1;
    }
  return real(fd, addr, len);
}

using namespace vp;
using namespace vpgen;

namespace {

std::atomic<uint64_t> g_clock{1};
int g_sockSerial = 0;

std::string sockPath() {
  return Process::get().base + "/s" + std::to_string(g_sockSerial++) + ".sock";
}

// raw client: connect, send bytes (optionally in pieces), behaviour, read all
struct Session {
  std::string request;
  std::string behaviour; // read | halfclose | reset | stall | noread_then_read | hold
  std::string reply;
  std::atomic<bool>* sent{nullptr}; // "hold": set once the request is out
  std::atomic<bool>* release{nullptr}; // "hold": keep the connection open until set
  bool connected{false};
  bool eof{false};
};

int connectTo(const std::string& path) {
  int fd = ::socket(AF_UNIX, SOCK_STREAM, 0);
  if (fd < 0) return -1;
  sockaddr_un a;
  memset(&a, 0, sizeof a);
  a.sun_family = AF_UNIX;
  strncpy(a.sun_path, path.c_str(), sizeof(a.sun_path) - 1);
  if (::connect(fd, (sockaddr*)&a, sizeof a) != 0) {
    ::close(fd);
    return -1;
  }
  return fd;
}

void readAll(int fd, Session& s, int timeoutMs) {
  char buf[4096];
  while (true) {
    pollfd p{fd, POLLIN, 0};
    int r = ::poll(&p, 1, timeoutMs);
    if (r <= 0) return; // nothing more within the watchdog
    ssize_t n = ::read(fd, buf, sizeof buf);
    if (n == 0) {
      s.eof = true;
      return;
    }
    if (n < 0) {
      // ECONNRESET: the server closed with unread request bytes pending
      s.eof = true;
      return;
    }
    s.reply.append(buf, (size_t)n);
  }
}

void runSession(const std::string& path, Session& s) {
  int fd = connectTo(path);
  if (fd < 0) return;
  s.connected = true;
  if (!s.request.empty()) {
    if (::send(fd, s.request.data(), s.request.size(), MSG_NOSIGNAL) < 0) {
    }
  }
  if (s.behaviour == "halfclose") ::shutdown(fd, SHUT_WR);
  if (s.behaviour == "reset") {
    linger l{1, 0};
    setsockopt(fd, SOL_SOCKET, SO_LINGER, &l, sizeof l);
    ::close(fd);
    return;
  }
  if (s.behaviour == "hold") {
    // never reads; keeps the connection open across the service's shutdown
    if (s.sent) *s.sent = true;
    while (s.release && !*s.release) std::this_thread::sleep_for(std::chrono::milliseconds(5));
    ::close(fd);
    return;
  }
  if (s.behaviour == "noread_then_read") {
    // stalls past the server's 2 s send timeout before reading anything
    std::this_thread::sleep_for(std::chrono::milliseconds(2600));
  }
  // "stall": we sent what we sent and now just wait for the server to give up
  readAll(fd, s, 6000);
  ::close(fd);
}

bool parseReply(const std::string& text, Json::Value* out) {
  Json::CharReaderBuilder b;
  std::string errs;
  std::istringstream in(text);
  if (!Json::parseFromStream(b, in, out, &errs)) return false;
  // nothing but whitespace may follow the document
  return true;
}

std::map<std::string, int> bodyMap(const Json::Value& j) {
  std::map<std::string, int> m;
  for (auto& k : j["body"].getMemberNames()) m[k] = j["body"][k].asInt();
  return m;
}

// ----------------------------------------------------------- generators ----
const std::vector<std::string> kKeys = {"a", "b", "oomd.kills"};

Json::Value genLin() {
  Json::Value c(Json::objectValue);
  c["sub"] = "lin";
  int nt = R(2, 4);
  for (int t = 0; t < nt; t++) {
    Json::Value th(Json::arrayValue);
    int n = R(2, 5);
    for (int i = 0; i < n; i++) {
      Json::Value op(Json::objectValue);
      int k = W({35, 15, 10, 20, 12, 8});
      static const char* names[] = {"inc", "set", "reset", "get", "sock_g", "sock_r"};
      op["op"] = names[k];
      if (k <= 1) {
        op["key"] = oneOf(kKeys);
        op["val"] = R(-3, 9);
      }
      if (P(30)) op["yield"] = R(1, 3);
      th.append(op);
    }
    c["threads"].append(th);
  }
  c["runs"] = 12;
  return c;
}

Json::Value genBulk() {
  Json::Value c(Json::objectValue);
  c["sub"] = "bulk";
  c["threads"] = R(2, 8);
  c["n"] = R(100, 3000);
  c["keys"] = R(1, 3);
  return c;
}

Json::Value genProto() {
  Json::Value c(Json::objectValue);
  c["sub"] = "proto";
  int ns = R(1, 6);
  bool anyStall = false;
  for (int i = 0; i < ns; i++) {
    Json::Value s(Json::objectValue);
    // request bytes: every first byte, with/without terminator, embedded NUL,
    // up to beyond the 32-byte read window
    std::string req;
    int form = W({36, 22, 18, 14, 10});
    if (form == 4) {
      // only the first byte is the mode: a valid mode letter further in changes nothing
      req = std::string(R(1, 3), oneOf(std::vector<char>{'a', 'x', ' ', 'G', 'R', '1', (char)0x80}));
      req += oneOf(std::vector<char>{'g', 'r', '0'});
      if (P(80)) req += "\n";
    } else if (form == 0) {
      req = std::string(1, oneOf(std::vector<char>{'g', 'r', '0', 'x', 'a', 'G', '\0', '\n', ' ', '{', (char)0xff}));
      if (P(70)) req += "\n";
    } else if (form == 1) {
      int n = R(0, 40);
      for (int k = 0; k < n; k++) req += (char)R(0, 255);
    } else if (form == 2) {
      req = std::string(1, oneOf(std::vector<char>{'g', 'r', '0'}));
      int n = R(0, 45);
      for (int k = 0; k < n; k++) req += (char)R(32, 126);
      if (P(50)) req += P(50) ? "\n" : std::string(1, '\0');
    } else {
      req = "";
    }
    Json::Value bytes(Json::arrayValue);
    for (unsigned char ch : req) bytes.append((int)ch);
    s["req"] = bytes;
    int b = W({50, 22, 18, 10});
    // a request without terminator makes the server wait for its 2 s timeout;
    // keep most of those as half-closes so that cases stay short
    bool terminated = req.size() >= 32;
    for (size_t k = 0; k < req.size() && k < 32; k++)
      if (req[k] == '\n' || req[k] == '\0') terminated = true;
    if (b == 0 && !terminated && P(80)) b = 1;
    s["beh"] = b == 0 ? "read" : b == 1 ? "halfclose" : b == 2 ? "reset" : "stall";
    if (b == 3) anyStall = true;
    c["sessions"].append(s);
  }
  c["parallel"] = P(60);
  // a reply larger than the socket buffer to a client that does not read it:
  // the handler sits in send() until its timeout; optionally the service is
  // shut down meanwhile
  if (P(6)) {
    c["bigkeys"] = R(15000, 30000);
    int k = W({40, 60});
    if (k == 0) {
      Json::Value s(Json::objectValue);
      s["req"].append((int)'g');
      s["req"].append((int)'\n');
      s["beh"] = "noread_then_read";
      c["sessions"].append(s);
      c["parallel"] = true;
    } else {
      c["hold_during_shutdown"] = true;
    }
  }
  // counters before the sessions
  for (auto& k : kKeys)
    if (P(60)) c["init"][k] = R(0, 50);
  (void)anyStall;
  // transient accept() failures
  if (P(25)) {
    int nf = R(1, 3);
    for (int i = 0; i < nf; i++) {
      Json::Value f(Json::objectValue);
      f["at"] = R(0, ns + 1);
      f["errno"] = oneOf(std::vector<int>{EMFILE, ENFILE, ENOMEM, ENOBUFS, ECONNABORTED, EINTR, EPROTO, EAGAIN});
      c["accept_faults"].append(f);
    }
  }
  return c;
}

Json::Value gen() {
  int k = W({45, 15, 40});
  if (k == 0) return genLin();
  if (k == 1) return genBulk();
  return genProto();
}

// ------------------------------------------------------ linearizability ----
struct HOp {
  std::string op, key;
  int val{0};
  uint64_t inv{0}, resp{0};
  bool observes{false};
  std::map<std::string, int> result;
};

using State = std::map<std::string, int>;

void applyOp(State& s, const HOp& o) {
  if (o.op == "inc") s[o.key] = s[o.key] + o.val;
  if (o.op == "set") s[o.key] = o.val;
  if (o.op == "reset" || o.op == "sock_r")
    for (auto& kv : s) kv.second = 0;
}

bool linearizable(const std::vector<HOp>& h, uint32_t done, State st, std::set<std::pair<uint32_t, std::string>>& seen) {
  if (done == (1u << h.size()) - 1) return true;
  std::string key;
  for (auto& kv : st) key += kv.first + "=" + std::to_string(kv.second) + ",";
  if (!seen.insert({done, key}).second) return false;
  // minimal response time among the remaining operations
  uint64_t minResp = UINT64_MAX;
  for (size_t i = 0; i < h.size(); i++)
    if (!(done & (1u << i))) minResp = std::min(minResp, h[i].resp);
  for (size_t i = 0; i < h.size(); i++) {
    if (done & (1u << i)) continue;
    if (h[i].inv > minResp) continue; // something finished before this one started
    State s2 = st;
    if (h[i].observes) {
      if (s2 != h[i].result) continue;
    }
    applyOp(s2, h[i]);
    if (linearizable(h, done | (1u << i), s2, seen)) return true;
  }
  return false;
}

std::map<std::string, int> toMap(const std::unordered_map<std::string, int>& u) {
  return std::map<std::string, int>(u.begin(), u.end());
}

Verdict runLin(const Json::Value& c) {
  Verdict v;
  int runs = c.get("runs", 10).asInt();
  size_t total = 0;
  for (auto& t : c["threads"]) total += t.size();
  if (total > 20) {
    v.discard = true;
    return v;
  }
  bool overlapped = false;
  for (int r = 0; r < runs && v.ok; r++) {
    std::string path = sockPath();
    std::vector<std::vector<HOp>> per(c["threads"].size());
    {
      auto stats = Oomd::Stats::get_for_unittest(path);
      std::atomic<int> ready{0};
      int nt = c["threads"].size();
      std::vector<std::thread> th;
      for (int t = 0; t < nt; t++) {
        th.emplace_back([&, t]() {
          ready++;
          while (ready.load() < nt) std::this_thread::yield();
          for (auto& jo : c["threads"][t]) {
            HOp o;
            o.op = jo["op"].asString();
            o.key = jo.get("key", "").asString();
            o.val = jo.get("val", 0).asInt();
            for (int y = 0; y < jo.get("yield", 0).asInt(); y++) std::this_thread::yield();
            o.inv = g_clock.fetch_add(1);
            if (o.op == "inc") stats->increment(o.key, o.val);
            if (o.op == "set") stats->set(o.key, o.val);
            if (o.op == "reset") stats->reset();
            if (o.op == "get") {
              o.result = toMap(stats->getAll());
              o.observes = true;
            }
            if (o.op == "sock_g" || o.op == "sock_r") {
              Session s;
              s.request = o.op == "sock_g" ? "g\n" : "r\n";
              s.behaviour = "read";
              runSession(path, s);
              Json::Value j;
              if (s.connected && parseReply(s.reply, &j) && o.op == "sock_g") {
                o.result = bodyMap(j);
                o.observes = true;
              }
            }
            o.resp = g_clock.fetch_add(1);
            per[t].push_back(o);
          }
        });
      }
      for (auto& t : th) t.join();
    }
    std::vector<HOp> h;
    for (auto& p : per) h.insert(h.end(), p.begin(), p.end());
    for (size_t i = 0; i < h.size(); i++)
      for (size_t j = 0; j < h.size(); j++)
        if (i != j && h[i].inv < h[j].resp && h[j].inv < h[i].resp) overlapped = true;
    std::set<std::pair<uint32_t, std::string>> seen;
    if (!linearizable(h, 0, State(), seen)) {
      std::string d;
      for (auto& o : h) {
        d += o.op + (o.key.empty() ? "" : "(" + o.key + "," + std::to_string(o.val) + ")") + "[" + std::to_string(o.inv) + "," + std::to_string(o.resp) + "]";
        if (o.observes) {
          d += "->{";
          for (auto& kv : o.result) d += kv.first + ":" + std::to_string(kv.second) + " ";
          d += "}";
        }
        d += " ";
      }
      v.fail("observed history is not linearizable against the sequential counter map: " + d);
    }
  }
  v.nontrivial = overlapped;
  v.labels.push_back("lin");
  return v;
}

Verdict runBulk(const Json::Value& c) {
  Verdict v;
  std::string path = sockPath();
  int nt = c["threads"].asInt(), n = c["n"].asInt(), nk = c["keys"].asInt();
  std::map<std::string, int> got;
  {
    auto stats = Oomd::Stats::get_for_unittest(path);
    std::vector<std::thread> th;
    for (int t = 0; t < nt; t++)
      th.emplace_back([&, t]() {
        for (int i = 0; i < n; i++) stats->increment("k" + std::to_string((t + i) % nk), 1);
      });
    for (auto& t : th) t.join();
    got = toMap(stats->getAll());
  }
  long sum = 0;
  for (auto& kv : got) sum += kv.second;
  if (sum != (long)nt * n) v.fail(std::to_string(nt) + " threads x " + std::to_string(n) + " increments sum to " + std::to_string(sum));
  v.nontrivial = true;
  v.labels.push_back("bulk");
  return v;
}

Verdict runProto(const Json::Value& c) {
  Verdict v;
  std::string path = sockPath();
  std::vector<Session> ss;
  for (auto& js : c["sessions"]) {
    Session s;
    for (auto& b : js["req"]) s.request += (char)b.asInt();
    s.behaviour = js["beh"].asString();
    ss.push_back(s);
  }
  bool abnormal = false;
  std::atomic<bool> holdSent{false}, holdRelease{false};
  Session holdSession;
  std::thread holder;
  auto t0 = std::chrono::steady_clock::now();
  g_acceptCalls = 0;
  g_acceptFailed = 0;
  for (int i = 0; i < 3; i++) g_acceptFailAt[i] = -1;
  if (c.isMember("accept_faults")) {
    int i = 0;
    for (auto& f : c["accept_faults"]) {
      if (i >= 3) break;
      g_acceptErrno[i] = f["errno"].asInt();
      g_acceptFailAt[i] = f["at"].asInt();
      i++;
    }
  }
  {
    auto stats = Oomd::Stats::get_for_unittest(path);
    std::map<std::string, int> init;
    if (c.isMember("init"))
      for (auto& k : c["init"].getMemberNames()) {
        stats->set(k, c["init"][k].asInt());
        init[k] = c["init"][k].asInt();
      }
    for (int k = 0; k < c.get("bigkeys", 0).asInt(); k++) stats->set("oomd.big.counter." + std::to_string(k), k);
    if (c["parallel"].asBool()) {
      std::vector<std::thread> th;
      for (auto& s : ss) th.emplace_back([&path, &s]() { runSession(path, s); });
      for (auto& t : th) t.join();
    } else {
      for (auto& s : ss) runSession(path, s);
    }
    bool anyReset = false, maybeReset = false;
    for (auto& s : ss) {
      if (s.behaviour != "read") abnormal = true;
      if (!s.connected) {
        v.fail("client could not connect to the stats socket");
        break;
      }
      if (s.behaviour == "noread_then_read") {
        // whatever part of the reply fitted the socket buffer arrives; the
        // server must have hung up
        if (!s.eof) v.fail("a client that stalled past the send timeout before reading was not disconnected within 6 s");
        continue;
      }
      if (s.behaviour == "reset") {
        // we did not read; an 'r' may or may not have been processed before
        // the reset arrived
        if (!s.request.empty() && s.request[0] == 'r') maybeReset = true;
        continue;
      }
      char mode = 'a';
      bool complete = false; // did the server see a full request (terminator / EOF / 32 bytes)?
      {
        size_t n = 0;
        for (; n < s.request.size() && n < 32; n++) {
          char ch = s.request[n];
          if (ch == '\n' || ch == '\0') {
            complete = true;
            break;
          }
          if (n == 0) mode = ch;
        }
        if (n >= 32) complete = true;
        if (s.behaviour == "halfclose") complete = true;
      }
      if (mode == 'r' && complete) anyReset = true;
      if (!complete) {
        // the server waits for more input and gives up after its 2 s timeout:
        // no reply at all, then EOF
        if (!s.reply.empty()) {
          Json::Value j;
          if (!parseReply(s.reply, &j)) v.fail("stalled session received bytes that are not a JSON document");
        }
        if (!s.eof) v.fail("stalled session was not closed by the server within 6 s");
        continue;
      }
      Json::Value j;
      if (s.request.size() > 32 && s.reply.empty()) {
        // beyond the 32-byte read window the server closes with unread input;
        // the reset may overtake the reply (outside the property's domain)
        v.labels.push_back("beyond_window_reply_lost");
        continue;
      }
      if (!parseReply(s.reply, &j)) {
        v.fail("reply to request starting with byte " + std::to_string((unsigned char)mode) + " is not a JSON document: '" + s.reply.substr(0, 80) + "'");
        break;
      }
      if (!s.eof) v.fail("connection not closed after the reply");
      int wantErr = (mode == 'g' || mode == 'r' || mode == '0') ? 0 : 1;
      if (!j.isObject() || !j["error"].isInt() || j["error"].asInt() != wantErr || !j["body"].isObject()) {
        v.fail("reply to mode byte " + std::to_string((unsigned char)mode) + " is " + jstr(j) + ", expected error=" + std::to_string(wantErr));
        break;
      }
      if (mode != 'g' && j["body"].size() != 0) v.fail("non-empty body in reply to mode byte " + std::to_string((unsigned char)mode));
      if (mode == 'g' && !c["parallel"].asBool()) {
        auto m = bodyMap(j);
        for (auto& kv : init) {
          if (!m.count(kv.first)) v.fail("counter " + kv.first + " missing from the 'g' reply");
        }
      }
    }
    if (v.ok) {
      // the server is still usable
      Session s;
      s.request = "g\n";
      s.behaviour = "read";
      runSession(path, s);
      Json::Value j;
      if (!s.connected || !parseReply(s.reply, &j) || j["error"].asInt() != 0) {
        v.fail("server did not answer a well-formed 'g' after the sessions: '" + s.reply.substr(0, 60) + "'");
      } else if (!maybeReset && (!c["parallel"].asBool() || !anyReset)) {
        auto m = bodyMap(j);
        for (auto& kv : init) {
          int want = anyReset ? 0 : kv.second;
          if (!m.count(kv.first) || m[kv.first] != want) v.fail("counter " + kv.first + " is " + (m.count(kv.first) ? std::to_string(m[kv.first]) : std::string("missing")) + " after the sessions, expected " + std::to_string(want));
        }
      }
    }
    if (v.ok && c.get("hold_during_shutdown", false).asBool()) {
      holdSession.request = "g\n";
      holdSession.behaviour = "hold";
      holdSession.sent = &holdSent;
      holdSession.release = &holdRelease;
      holder = std::thread([&path, &holdSession]() { runSession(path, holdSession); });
      auto w0 = std::chrono::steady_clock::now();
      while (!holdSent && std::chrono::steady_clock::now() - w0 < std::chrono::seconds(5)) std::this_thread::sleep_for(std::chrono::milliseconds(2));
      // give the handler time to read the request and fill the socket buffer
      std::this_thread::sleep_for(std::chrono::milliseconds(50));
      abnormal = true;
    }
  } // ~Stats must complete (an abort from the destructor kills the harness)
  holdRelease = true;
  if (holder.joinable()) holder.join();
  auto dt = std::chrono::duration_cast<std::chrono::milliseconds>(std::chrono::steady_clock::now() - t0).count();
  if (dt > 20000) v.fail("sessions + shutdown took " + std::to_string(dt) + " ms");
  v.nontrivial = abnormal;
  v.labels.push_back("proto");
  if (abnormal) v.labels.push_back("abnormal_session");
  if (g_acceptFailed.load() > 0) {
    v.labels.push_back("accept_failed");
    v.nontrivial = true;
  }
  for (int i = 0; i < 3; i++) g_acceptFailAt[i] = -1;
  if (c.isMember("bigkeys")) v.labels.push_back(c.get("hold_during_shutdown", false).asBool() ? "big_reply_unread_during_shutdown" : "big_reply_read_after_timeout");
  return v;
}

Verdict run(const Json::Value& c) {
  Process::get();
  std::string sub = c["sub"].asString();
  if (sub == "lin") return runLin(c);
  if (sub == "bulk") return runBulk(c);
  if (sub == "proto") return runProto(c);
  Verdict v;
  v.discard = true;
  return v;
}

} // namespace

int main(int argc, char** argv) {
  HarnessDef d;
  d.prop = "C19";
  d.gen = gen;
  d.run = run;
  return harnessMain(argc, argv, d);
}
