// C19 (3): socket path lengths around sizeof(sun_path). Built with
// g++ -O2 -D_FORTIFY_SOURCE=2 (ASan does not see the intra-object strcpy
// overflow into sockaddr_un; FORTIFY aborts on it) and also with ASan.
// Enumerates every length 90..130; prints one JSON line per length.
#include <sys/stat.h>
#include <sys/un.h>
#include <unistd.h>
#include <cstdio>
#include <cstdlib>
#include <iostream>
#include <string>

#include "oomd/Log.h"
#include "oomd/Stats.h"
#include "oomd/StatsClient.h"

int main(int argc, char** argv) {
  std::cerr.setstate(std::ios::failbit);
  Oomd::Log::get(-1, std::cerr, true);
  char tmpl[] = "/dev/shm/vpf-XXXXXX";
  if (!mkdtemp(tmpl)) return 2;
  std::string dir = tmpl;
  int from = argc > 1 ? atoi(argv[1]) : 90, to = argc > 2 ? atoi(argv[2]) : 130;
  int bad = 0;
  const int kMax = (int)sizeof(((sockaddr_un*)nullptr)->sun_path) - 1; // 107 + NUL
  for (int len = from; len <= to; len++) {
    std::string path = dir + "/" + std::string(len - dir.size() - 1, 's');
    bool served = false, clientOk = false, clientThrew = false;
    fprintf(stdout, "{\"len\":%d,", len);
    fflush(stdout);
    try {
      auto stats = Oomd::Stats::get_for_unittest(path);
      served = true;
      stats->set("k", 7);
      try {
        Oomd::StatsClient client(path);
        auto m = client.getStats();
        clientOk = m && m->count("k") && (*m)["k"] == 7;
      } catch (const std::exception&) {
        clientThrew = true;
      }
    } catch (const std::exception&) {
      served = false;
      try {
        Oomd::StatsClient client(path);
        auto m = client.getStats();
        clientOk = (bool)m;
      } catch (const std::exception&) {
        clientThrew = true;
      }
    }
    bool ok = len <= kMax ? (served && clientOk) : (!served && !clientOk);
    fprintf(stdout, "\"served\":%s,\"client_ok\":%s,\"client_threw\":%s,\"ok\":%s}\n", served ? "true" : "false", clientOk ? "true" : "false", clientThrew ? "true" : "false", ok ? "true" : "false");
    fflush(stdout);
    if (!ok) bad++;
    unlink(path.c_str());
  }
  std::string cmd = "rm -rf '" + dir + "'";
  if (system(cmd.c_str()) != 0) {
  }
  _exit(bad ? 1 : 0);
}
