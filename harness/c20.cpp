// C20 Async logger: exactly-once FIFO delivery, bounded backlog, per-thread
// silencing (DESIGN.md §C20). Real Log object (async mode) writing into a
// controllable streambuf; producers are real threads; built with TSan and ASan.
#include "core.h"
#include "gen_common.h"

#include <fcntl.h>
#include <unistd.h>
#include <condition_variable>
#include <thread>

#include "oomd/Log.h"

using namespace vp;
using namespace vpgen;

// Schedule widening for the flusher / shutdown hand-shake: every pthread_cond_wait of the process can be
// entered a little late (the caller still holds the mutex), which stretches the window between a waiter's
// last look at its predicate and its actually going to sleep from nanoseconds to the generated delay.
// A correct notifier changes the predicate under that mutex, so nothing can slip into the window.
// Not in TSan builds: the sanitizer owns that symbol there.
#if defined(__has_feature)
#if __has_feature(thread_sanitizer)
#define VP_NO_CONDWAIT_HOOK 1
#endif
#endif
#if defined(__SANITIZE_THREAD__)
#define VP_NO_CONDWAIT_HOOK 1
#endif
#include <dlfcn.h>
#include <atomic>
static std::atomic<int> g_condwait_delay_us{0};
#ifndef VP_NO_CONDWAIT_HOOK
extern "C" int pthread_cond_wait(pthread_cond_t* c, pthread_mutex_t* m) {
  static auto real = (int (*)(pthread_cond_t*, pthread_mutex_t*))dlsym(RTLD_NEXT, "pthread_cond_wait");
  int d = g_condwait_delay_us.load(std::memory_order_relaxed);
  if (d > 0) usleep((useconds_t)d);
  return real(c, m);
}
#endif

namespace {

constexpr size_t kCap = 1024 * 1024;

class CtlBuf : public std::streambuf {
 public:
  std::string data; // everything received
  std::vector<size_t> batchEnds; // data.size() at each sync()
  std::mutex mu;
  std::condition_variable cv;
  bool blocked{false};
  size_t blockAfterBytes{SIZE_MAX}; // start blocking once this many bytes arrived
  int slowUs{0};

  void release() {
    std::lock_guard<std::mutex> l(mu);
    blocked = false;
    blockAfterBytes = SIZE_MAX;
    cv.notify_all();
  }

 protected:
  std::streamsize xsputn(const char* s, std::streamsize n) override {
    std::unique_lock<std::mutex> l(mu);
    if (data.size() >= blockAfterBytes) blocked = true;
    cv.wait(l, [&] { return !blocked; });
    data.append(s, (size_t)n);
    if (slowUs) {
      l.unlock();
      std::this_thread::sleep_for(std::chrono::microseconds(slowUs));
    }
    return n;
  }
  int_type overflow(int_type ch) override {
    if (ch != traits_type::eof()) {
      char c = (char)ch;
      xsputn(&c, 1);
    }
    return ch;
  }
  int sync() override {
    std::lock_guard<std::mutex> l(mu);
    batchEnds.push_back(data.size());
    return 0;
  }
};

// {"producers":[{"lines":[len,...],"silence":[from,to] | null,"yield":n}],
//  "sink":{"mode":"fast|slow|block","after":bytes},"kmsg_during_silence":bool}
Json::Value gen() {
  Json::Value c(Json::objectValue);
  int np = R(1, 6);
  int volume = W({55, 25, 20}); // small, medium, above the cap
  for (int p = 0; p < np; p++) {
    Json::Value pr(Json::objectValue);
    int n = volume == 0 ? R(1, 60) : volume == 1 ? R(50, 400) : R(30, 90);
    for (int i = 0; i < n; i++) {
      int k = volume == 2 ? W({15, 15, 70}) : W({85, 13, 2});
      int len = k == 0 ? R(1, 200) : k == 1 ? R(200, 8192) : R(16384, 65536);
      pr["lines"].append(len);
    }
    if (P(30)) {
      int a = R(0, n), b = R(0, n);
      pr["silence"].append(std::min(a, b));
      pr["silence"].append(std::max(a, b));
    }
    pr["yield"] = R(0, 3);
    c["producers"].append(pr);
  }
  // a single line around or above the whole 1 MiB budget (never admissible
  // above it, whatever the backlog)
  if (P(8)) {
    Json::Value& ls = c["producers"][R(0, np - 1)]["lines"];
    int at = R(0, (int)ls.size() - 1);
    ls[at] = P(50) ? R((int)kCap - 64, (int)kCap + 64) : R((int)kCap + 1, (int)kCap + 400000);
    c["oversized"] = true;
    if (P(50)) ls[R(0, (int)ls.size() - 1)] = R((int)kCap + 1, 3 * (int)kCap);
  }
  int mode = W({35, 20, 45});
  c["sink"]["mode"] = mode == 0 ? "fast" : mode == 1 ? "slow" : "block";
  c["sink"]["after"] = P(50) ? 0 : R(0, 200000);
  c["sink"]["slow_us"] = R(1, 200);
  c["kmsg"] = P(50);
  // far more than 65536 tiny lines offered while the sink is blocked from the start: the number dropped in
  // one flush cycle is large
  if (P(3)) {
    Json::Value pr(Json::objectValue);
    pr["flood"]["n"] = R(110000, 190000);
    pr["flood"]["len"] = R(1, 6);
    pr["yield"] = 0;
    c["producers"] = Json::Value(Json::arrayValue);
    c["producers"].append(pr);
    c["sink"]["mode"] = "block";
    c["sink"]["after"] = 0;
    c.removeMember("oversized");
  }
  // late entry into every condition wait, and a short random pause before shutdown (asan build only)
  if (P(35)) {
    c["condwait_delay_us"] = R(100, 4000);
    c["pre_shutdown_us"] = R(0, 6000);
  }
  return c;
}

struct Line {
  int tid, seq;
};

Verdict runExpanded(const Json::Value& c);
// {"flood":{"n":N,"len":L}} on a producer stands for N lines of L bytes (kept out of the case file)
Verdict run(const Json::Value& c0) {
  bool flood = false;
  for (auto& pr : c0["producers"])
    if (pr.isMember("flood")) flood = true;
  if (!flood) return runExpanded(c0);
  Json::Value c = c0;
  for (auto& pr : c["producers"])
    if (pr.isMember("flood")) {
      int n = pr["flood"]["n"].asInt(), len = pr["flood"]["len"].asInt();
      Json::Value lines(Json::arrayValue);
      for (int i = 0; i < n; i++) lines.append(len);
      pr["lines"] = lines;
    }
  Verdict v = runExpanded(c);
  v.labels.push_back("flood_of_tiny_lines");
  return v;
}

Verdict runExpanded(const Json::Value& c) {
  Verdict v;
  Process::get();
  CtlBuf buf;
  std::string mode = c["sink"]["mode"].asString();
  if (mode == "block") buf.blockAfterBytes = (size_t)c["sink"]["after"].asUInt64();
  if (mode == "slow") buf.slowUs = c["sink"]["slow_us"].asInt();
  std::ostream sink(&buf);
  int pfd[2];
  if (pipe2(pfd, O_NONBLOCK) != 0) {
    v.discard = true;
    return v;
  }
  fcntl(pfd[1], F_SETPIPE_SZ, 1 << 20);
  size_t offered = 0, produced = 0;
  int np = c["producers"].size();
  std::vector<int> acceptedCount(np, 0);
  size_t kmsgSent = 0;
  g_condwait_delay_us = c.get("condwait_delay_us", 0).asInt();
  {
    auto log = Oomd::Log::get_for_unittest(pfd[1], sink, false);
    std::vector<std::thread> th;
    std::atomic<int> silencedKmsg{0};
    for (int p = 0; p < np; p++) {
      const Json::Value& pr = c["producers"][p];
      int n = pr["lines"].size();
      int s0 = pr["silence"].isArray() ? pr["silence"][0].asInt() : -1;
      int s1 = pr["silence"].isArray() ? pr["silence"][1].asInt() : -1;
      for (int i = 0; i < n; i++) {
        bool silenced = i >= s0 && i < s1;
        if (!silenced) {
          produced++;
          offered += (size_t)pr["lines"][i].asInt() + 24;
        }
      }
      bool doKmsg = c["kmsg"].asBool() && s1 > s0;
      if (doKmsg) kmsgSent++;
      th.emplace_back([&, p, n, s0, s1, doKmsg]() {
        const Json::Value& lines = c["producers"][p]["lines"];
        int yield = c["producers"][p]["yield"].asInt();
        for (int i = 0; i < n; i++) {
          if (i == s0 && s1 > s0) {
            Oomd::LogStream(*log) << Oomd::LogStream::Control::DISABLE;
            if (doKmsg) {
              // the kill record is written while this thread is silenced
              log->kmsgLog("victim-of-thread-" + std::to_string(p), "oomd kill");
              silencedKmsg++;
            }
          }
          if (i == s1 && s1 > s0) Oomd::LogStream(*log) << Oomd::LogStream::Control::ENABLE;
          std::string pad((size_t)lines[i].asInt(), (char)('a' + (i % 26)));
          Oomd::LogStream(*log) << "L" << p << ":" << i << ":" << pad;
          if (yield && (i % (yield + 1)) == 0) std::this_thread::yield();
        }
        if (s1 >= n && s1 > s0) Oomd::LogStream(*log) << Oomd::LogStream::Control::ENABLE;
      });
    }
    for (auto& t : th) t.join();
    if (c.isMember("pre_shutdown_us")) std::this_thread::sleep_for(std::chrono::microseconds(c["pre_shutdown_us"].asInt()));
    // all producers are done; whatever was accepted must reach the sink before
    // ~Log returns. A blocked sink is released first (a sink blocked for ever
    // keeps the destructor waiting by design).
    buf.release();
  } // ~Log (closes the kmsg fd it was given)
  g_condwait_delay_us = 0;
  if (c.isMember("condwait_delay_us")) v.labels.push_back("late_cond_wait");
  // kmsg records
  std::string kmsg;
  {
    char tmp[65536];
    ssize_t n;
    while ((n = ::read(pfd[0], tmp, sizeof tmp)) > 0) kmsg.append(tmp, (size_t)n);
    ::close(pfd[0]);
  }
  size_t kmsgSeen = 0;
  for (size_t pos = 0; (pos = kmsg.find("oomd kill: victim-of-thread-", pos)) != std::string::npos; pos++) kmsgSeen++;
  if (kmsgSeen != kmsgSent) v.fail(std::to_string(kmsgSent) + " kmsg kill records were written by silenced threads, " + std::to_string(kmsgSeen) + " reached the kmsg sink");
  // parse the sink
  std::vector<int> nextSeq(np, -1);
  size_t delivered = 0;
  long reportedDropped = 0;
  size_t pos = 0;
  const std::string& d = buf.data;
  while (pos < d.size() && v.ok) {
    size_t e = d.find('\n', pos);
    if (e == std::string::npos) {
      v.fail("sink ends with an unterminated line");
      break;
    }
    std::string line = d.substr(pos, e - pos);
    pos = e + 1;
    if (line == "...") continue;
    if (line.size() > 17 && line.compare(line.size() - 17, 17, " messages dropped") == 0) {
      reportedDropped += atol(line.c_str());
      continue;
    }
    int tid = -1, seq = -1;
    if (sscanf(line.c_str(), "L%d:%d:", &tid, &seq) != 2 || tid < 0 || tid >= np) {
      v.fail("unexpected line in the sink: " + line.substr(0, 60));
      break;
    }
    const Json::Value& pr = c["producers"][tid];
    if (seq < 0 || seq >= (int)pr["lines"].size()) {
      v.fail("line of thread " + std::to_string(tid) + " with impossible sequence " + std::to_string(seq));
      break;
    }
    // content intact
    size_t colon = line.find(':', line.find(':') + 1);
    size_t want = (size_t)pr["lines"][seq].asInt();
    if (line.size() - colon - 1 != want) {
      v.fail("line L" + std::to_string(tid) + ":" + std::to_string(seq) + " arrived with " + std::to_string(line.size() - colon - 1) + " payload bytes instead of " + std::to_string(want));
      break;
    }
    int s0 = pr["silence"].isArray() ? pr["silence"][0].asInt() : -1;
    int s1 = pr["silence"].isArray() ? pr["silence"][1].asInt() : -1;
    if (seq >= s0 && seq < s1) {
      v.fail("line L" + std::to_string(tid) + ":" + std::to_string(seq) + " was logged while its thread was silenced but reached the sink");
      break;
    }
    if (seq <= nextSeq[tid]) {
      v.fail("line L" + std::to_string(tid) + ":" + std::to_string(seq) + " delivered after L" + std::to_string(tid) + ":" + std::to_string(nextSeq[tid]) + " (duplicate or out of order)");
      break;
    }
    nextSeq[tid] = seq;
    delivered++;
  }
  if (!v.ok) return v;
  if (delivered + (size_t)reportedDropped != produced) {
    v.fail(std::to_string(produced) + " lines were logged, " + std::to_string(delivered) + " delivered and " + std::to_string(reportedDropped) + " reported dropped");
    return v;
  }
  if (offered <= kCap && reportedDropped != 0) {
    v.fail(std::to_string(reportedDropped) + " lines dropped although only " + std::to_string(offered) + " bytes were ever offered");
    return v;
  }
  // bounded backlog: every batch written between two flushes fits the cap, and
  // what arrives after the sink blocked is at most the batch being written
  // plus one full queue
  size_t prev = 0;
  for (size_t end : buf.batchEnds) {
    if (end - prev > kCap + 4096) {
      v.fail("one flushed batch holds " + std::to_string(end - prev) + " bytes, above the 1 MiB bound");
      return v;
    }
    prev = end;
  }
  if (mode == "block") {
    size_t after = (size_t)c["sink"]["after"].asUInt64();
    size_t tail = d.size() > after ? d.size() - after : 0;
    if (tail > 2 * kCap + 128 * 1024) {
      v.fail(std::to_string(tail) + " bytes were queued behind a blocked sink (bound: 1 MiB per queue)");
      return v;
    }
    if (offered > kCap) v.nontrivial = true;
    if (np >= 2) v.nontrivial = true;
  }
  if (c.get("oversized", false).asBool()) v.labels.push_back("line_near_or_above_cap");
  if (reportedDropped) v.labels.push_back("dropped");
  if (offered > kCap) v.labels.push_back("offered_above_cap");
  v.labels.push_back("sink_" + mode);
  return v;
}

} // namespace

int main(int argc, char** argv) {
  HarnessDef d;
  d.prop = "C20";
  d.gen = gen;
  d.run = run;
  return harnessMain(argc, argv, d);
}
