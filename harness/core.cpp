#include "core.h"

#include <fcntl.h>
#include <signal.h>
#include <sys/stat.h>
#include <sys/xattr.h>
#include <unistd.h>
#include <cstdlib>
#include <cstring>
#include <fstream>
#include <iostream>
#include <sstream>

#include <rapidcheck.h>

#include "oomd/Log.h"
#include "oomd/Oomd.h"
#include "oomd/Stats.h"
#include "oomd/config/ConfigCompiler.h"
#include "oomd/config/JsonConfigParser.h"
#include "oomd/engine/Engine.h"

extern "C" volatile int vp_shim_on;

namespace vp {

// ------------------------------------------------------------------ json ---
std::string jstr(const Json::Value& v) {
  Json::StreamWriterBuilder b;
  b["indentation"] = "";
  b["commentStyle"] = "None";
  b["precision"] = 17;
  return Json::writeString(b, v);
}
Json::Value jparse(const std::string& s) {
  Json::Value v;
  Json::CharReaderBuilder b;
  std::string errs;
  std::istringstream in(s);
  if (!Json::parseFromStream(b, in, &v, &errs)) {
    throw std::runtime_error("vp: bad json: " + errs);
  }
  return v;
}
Json::Value jload(const std::string& file) {
  Bypass bp;
  std::ifstream f(file);
  if (!f) {
    throw std::runtime_error("vp: cannot open " + file);
  }
  std::stringstream ss;
  ss << f.rdbuf();
  return jparse(ss.str());
}
void jsave(const std::string& file, const Json::Value& v) {
  Bypass bp;
  std::string tmp = file + ".tmp";
  {
    std::ofstream f(tmp);
    f << jstr(v) << "\n";
  }
  ::rename(tmp.c_str(), file.c_str());
}

std::string relOf(const std::string& cgroot, const std::string& abspath) {
  if (abspath == cgroot) return "";
  if (abspath.compare(0, cgroot.size() + 1, cgroot + "/") == 0) {
    return abspath.substr(cgroot.size() + 1);
  }
  return "?" + abspath;
}

// --------------------------------------------------------------- process ---
static void noop_handler(int) {}

static void selfTest(const std::string& dir) {
  // the scratch fs must behave like the one the design assumes; otherwise
  // this is an infrastructure error (exit 2), never a violation.
  std::string d = dir + "/selftest";
  auto die = [&](const std::string& m) {
    fprintf(stderr, "vp: scratch fs self-test failed: %s\n", m.c_str());
    _exit(2);
  };
  if (mkdir(d.c_str(), 0755) != 0) die("mkdir");
  struct stat a, b;
  stat(d.c_str(), &a);
  if (::setxattr(d.c_str(), "trusted.vp", "1", 1, 0) != 0) die("trusted xattr");
  if (::setxattr(d.c_str(), "user.vp", "1", 1, 0) != 0) die("user xattr");
  rmdir(d.c_str());
  if (mkdir(d.c_str(), 0755) != 0) die("mkdir2");
  stat(d.c_str(), &b);
  if (a.st_ino == b.st_ino) die("inode reused on re-creation");
  rmdir(d.c_str());
}

Process& Process::get() {
  static Process* p = [] {
    auto* pr = new Process();
    const char* root = getenv("VP_SCRATCH_ROOT");
    std::string tmpl = std::string(root ? root : "/dev/shm") + "/vp-" + std::to_string(getpid()) + "-XXXXXX";
    std::vector<char> buf(tmpl.begin(), tmpl.end());
    buf.push_back(0);
    if (!mkdtemp(buf.data())) {
      perror("vp: mkdtemp");
      _exit(2);
    }
    pr->base = buf.data();
    selfTest(pr->base);
    std::string kmsg = pr->base + "/kmsg";
    pr->kmsg_fd = ::open(kmsg.c_str(), O_WRONLY | O_CREAT | O_APPEND, 0644);
    if (!getenv("VP_LOG")) {
      std::cerr.setstate(std::ios::failbit);
    }
    Oomd::Log::get(pr->kmsg_fd, std::cerr, true);
    if (!Oomd::Stats::init(pr->base + "/stats.sock")) {
      fprintf(stderr, "vp: Stats::init failed\n");
      _exit(2);
    }
    struct sigaction sa;
    memset(&sa, 0, sizeof sa);
    sa.sa_handler = noop_handler;
    sigaction(SIGTERM, &sa, nullptr);
    pr->sim = std::make_unique<Sim>(pr->base + "/c");
    vp_shim_on = 1;
    return pr;
  }();
  return *p;
}

std::string Process::readKmsg() {
  Bypass b;
  std::ifstream f(base + "/kmsg");
  std::stringstream ss;
  ss << f.rdbuf();
  return ss.str();
}
void Process::truncateKmsg() {
  Bypass b;
  if (ftruncate(kmsg_fd, 0) != 0) {
  }
}

// ----------------------------------------------------------------- daemon ---
static int64_t realMonoNs() {
  struct timespec ts;
  bool was = g.active;
  g.active = false;
  clock_gettime(CLOCK_MONOTONIC, &ts);
  g.active = was;
  return ts.tv_sec * 1000000000LL + ts.tv_nsec;
}

// Boolean plugin arguments have three documented spellings each (true/True/1, false/False/0). The generators and
// the oracles write and read "true" / "false"; when the scenario carries a non-zero "bool_spelling" the
// configuration handed to oomd spells every boolean argument of a core plugin (not of the scripted vp_* plugins,
// which read their own arguments) in one of the other accepted ways, chosen per occurrence from that number.
static void respellWalk(Json::Value& v, unsigned& state, bool inArgs) {
  if (v.isObject()) {
    bool scripted = v.isMember("name") && v["name"].isString() && v["name"].asString().compare(0, 3, "vp_") == 0;
    for (auto& k : v.getMemberNames()) {
      if (k == "args" && scripted) continue;
      respellWalk(v[k], state, inArgs || k == "args");
    }
  } else if (v.isArray()) {
    for (auto& x : v) respellWalk(x, state, inArgs);
  } else if (inArgs && v.isString()) {
    const std::string t = v.asString();
    if (t == "true" || t == "false") {
      state = state * 1103515245u + 12345u;
      unsigned pick = (state >> 16) % 3;
      static const char* T[3] = {"true", "True", "1"};
      static const char* F[3] = {"false", "False", "0"};
      v = t == "true" ? T[pick] : F[pick];
    }
  }
}
static Json::Value respellBools(const Json::Value& cfg, unsigned spelling) {
  if (spelling == 0) return cfg;
  Json::Value c = cfg;
  unsigned state = spelling;
  respellWalk(c, state, false);
  return c;
}

RunResult runDaemon(const Json::Value& sc, const DaemonHooks* hooks) {
  auto& P = Process::get();
  Sim& sim = *P.sim;
  RunResult R;
  R.cgroot = sim.cgroot();

  g.active = false;
  g.reset();
  g.virt_ino = sc.get("virt_ino", false).asBool(); // before the world is materialised: directories register
  g.scratch = sim.scratch();
  g.cgroot = sim.cgroot();
  g.kmsg_fd = P.kmsg_fd;
  sim.materialize(World::fromJson(sc["world"]));
  P.truncateKmsg();
  Oomd::resetStats();
  scripts.reset(sc["scripts"]);
  if (hooks && hooks->probe) {
    scripts.probe = [hooks, &sim](Oomd::OomdContext& ctx, const std::string& id) {
      hooks->probe(ctx, id, sim);
    };
  }
  g.vclock = true;
  g.base_ns = realMonoNs();
  g.velapsed_ns = 0;
  g.dt_unknown = sc.get("dt_unknown", false).asBool();
  g.kill_cost_ms = sc.get("kill_cost_ms", 0).asInt64();
  g.log_access = hooks && hooks->log_access;

  const Json::Value& ticks = sc["ticks"];
  int nticks = ticks.size();
  int next_tick = 0;

  g.on_kill = [&](pid_t pid, int sig) { return sim.onKill(pid, sig); };
  g.on_pidfd_open = [&](pid_t pid) { return sim.onPidfdOpen(pid); };
  g.on_mrelease = [&](int fd) { return sim.onMrelease(fd); };
  g.on_write = [&](const std::string& p, const std::string& d) {
    long r = sim.onWrite(p, d);
    g.aux = sim.lastKillCount;
    return r;
  };
  g.on_access = [&](const std::string& path, const char* kind) {
    AccessDecision d;
    if (hooks && hooks->on_access) {
      d = hooks->on_access(sim, path, kind, g.tick, g.access_count);
    }
    if (!d.fail_errno && d.substitute.empty()) {
      // "unreadable": only for reads of regular control files
      if (strcmp(kind, "open") == 0 || strcmp(kind, "fopen") == 0) {
        d.substitute = sim.unreadableSubstitute(path);
      }
    }
    return d;
  };
  g.on_sigtimedwait = [&]() -> int {
    int idx = next_tick++;
    if (idx >= nticks) {
      Ev e;
      e.k = "end";
      g.log(e);
      return SIGTERM;
    }
    const Json::Value& t = ticks[idx];
    for (const auto& o : t["ops"]) {
      sim.apply(Op::fromJson(o));
    }
    g.advance_ms(t.get("adv_ms", 5000).asInt64());
    g.tick = idx;
    g.access_count = 0;
    R.worlds.push_back(sim.world());
    {
      std::map<std::string, uint64_t> ino;
      for (auto& c : sim.world().cgs) ino[c.path] = sim.inode(c.path);
      R.inode_at_tick.push_back(ino);
    }
    R.tick_ms.push_back(g.now_ms());
    R.ticks_run = idx + 1;
    Ev e;
    e.k = "tick";
    g.log(e);
    if (hooks && hooks->on_tick) {
      hooks->on_tick(sim, idx);
    }
    return 0;
  };

  std::unordered_map<std::string, Oomd::DeviceType> devs;
  if (sc.isMember("devs")) {
    for (auto& k : sc["devs"].getMemberNames()) {
      devs[k] = sc["devs"][k].asString() == "hdd" ? Oomd::DeviceType::HDD : Oomd::DeviceType::SSD;
    }
  }
  Oomd::IOCostCoeffs hdd{1.31e-3, 1.13e-7, 2.58e-1, 5.04e-7, 0, 0};
  Oomd::IOCostCoeffs ssd{1.21e-2, 6.25e-7, 1.07e-3, 2.61e-7, 2.37e-2, 9.10e-10};
  auto loadCoeffs = [&](const char* key, Oomd::IOCostCoeffs& c) {
    if (!sc.isMember(key)) return;
    const auto& a = sc[key];
    c.read_iops = a[0].asDouble();
    c.readbw = a[1].asDouble();
    c.write_iops = a[2].asDouble();
    c.writebw = a[3].asDouble();
    c.trim_iops = a[4].asDouble();
    c.trimbw = a[5].asDouble();
  };
  loadCoeffs("hdd_coeffs", hdd);
  loadCoeffs("ssd_coeffs", ssd);

  sigset_t mask;
  sigemptyset(&mask);
  sigaddset(&mask, SIGTERM);

  g.active = true;
  try {
    Oomd::Config2::JsonConfigParser parser;
    auto ir = parser.parse(jstr(respellBools(sc["config"], sc.get("bool_spelling", 0).asUInt())));
    Oomd::PluginConstructionContext pcc(sim.cgroot());
    auto engine = Oomd::Config2::compile(*ir, pcc);
    if (!engine) {
      R.config_error = "compile returned null";
    } else {
      bool ok = true;
      for (const auto& d : sc["dropins"]) {
        if (d.get("remove", false).asBool()) {
          engine->removeDropInConfig(d["tag"].asString());
          continue;
        }
        auto dir = parser.parse(jstr(respellBools(d["config"], sc.get("bool_spelling", 0).asUInt())));
        auto unit = Oomd::Config2::compileDropIn(*ir, *dir, pcc);
        if (!unit || !engine->addDropInConfig(d["tag"].asString(), std::move(*unit))) {
          R.config_error = "drop-in rejected";
          ok = false;
          break;
        }
      }
      if (ok) {
        R.config_ok = true;
        Oomd::Oomd oomd(
            std::move(ir),
            std::move(engine),
            sc.get("interval", 5).asInt(),
            sim.cgroot(),
            "",
            devs,
            hdd,
            ssd);
        try {
          oomd.run(&mask);
        } catch (const std::exception& e) {
          R.exception = std::string("exception left Oomd::run: ") + e.what();
        } catch (...) {
          R.exception = "unknown exception left Oomd::run";
        }
        Ev e;
        e.k = "teardown";
        g.log(e);
      }
    }
  } catch (const std::exception& e) {
    R.config_error = std::string("exception during config: ") + e.what();
  }
  g.active = false;
  g.on_sigtimedwait = nullptr;
  g.on_access = nullptr;
  scripts.probe = nullptr;
  R.trace = g.trace;
  R.final_world = sim.world();
  R.inodes = sim.everInodes();
  R.initial_xattrs = sim.initialXattrs();
  for (auto& kv : Oomd::getStats()) R.stats_after[kv.first] = kv.second;
  R.accesses = g.access_count;
  return R;
}

// --------------------------------------------------------------- campaign ---
void Campaign::note(const Json::Value& c, const Verdict& v) {
  evals += v.weight;
  for (size_t h : v.sub_nontrivial) nontrivial.insert(h);
  if (!v.sample.isNull() && samples.size() < 3) samples.push_back(v.sample);
  if (v.discard) {
    discarded++;
    return;
  }
  std::set<std::string> uniq(v.labels.begin(), v.labels.end());
  for (auto& l : uniq) {
    labels[l]++;
  }
  if (v.nontrivial) {
    size_t h = std::hash<std::string>{}(jstr(c));
    bool fresh = nontrivial.insert(h).second;
    if (fresh && samples.size() < 3) {
      samples.push_back(c);
    }
  }
}

Json::Value Campaign::toJson() const {
  Json::Value v(Json::objectValue);
  v["prop"] = prop;
  v["evaluations"] = (Json::Int64)evals;
  v["distinct_nontrivial"] = (Json::Int64)nontrivial.size();
  v["discarded"] = (Json::Int64)discarded;
  v["excluded_by_known_finding"] = (Json::Int64)excluded_known;
  v["labels"] = Json::Value(Json::objectValue);
  for (auto& kv : labels) {
    v["labels"][kv.first] = (Json::Int64)kv.second;
  }
  v["samples"] = Json::Value(Json::arrayValue);
  for (auto& s : samples) {
    v["samples"].append(s);
  }
  v["failed"] = failed;
  if (failed) {
    v["why"] = last_why;
  }
  if (!extra.isNull()) {
    v["extra"] = extra;
  }
  return v;
}

static std::string argOf(int argc, char** argv, const char* name, const char* dflt = "") {
  for (int i = 1; i + 1 < argc; i++) {
    if (!strcmp(argv[i], name)) {
      return argv[i + 1];
    }
  }
  return dflt;
}

extern "C" void __sanitizer_print_memory_profile(size_t, size_t) __attribute__((weak));

int harnessMain(int argc, char** argv, const HarnessDef& def) {
  if (argc < 2) {
    fprintf(stderr, "usage: %s gen|fixed|replay ...\n", argv[0]);
    return 2;
  }
  Process::get();
  std::string mode = argv[1];
  auto finish = [](int code) {
    fflush(stdout);
    fflush(stderr);
    // VP_MEMPROFILE=1: live heap by allocation site (ASan builds), to find what
    // a long campaign retains between cases
    if (getenv("VP_MEMPROFILE") && __sanitizer_print_memory_profile) __sanitizer_print_memory_profile(95, 12);
    // Stats singleton destructor must not run (see DESIGN.md 3.4)
    std::string base = Process::get().base;
    Process::get().sim.reset();
    std::string cmd = "rm -rf '" + base + "'";
    if (!getenv("VP_KEEP")) {
      if (system(cmd.c_str()) != 0) {
      }
    }
    _exit(code);
  };

  // per-case watchdog: a case that does not come back (C10: "never hangs") ends the process with a
  // recognisable report instead of blocking the campaign. 60 s of real time is three to four orders of
  // magnitude above a normal case (VP_CASE_TIMEOUT overrides it).
  static long watchdog_s = getenv("VP_CASE_TIMEOUT") ? atol(getenv("VP_CASE_TIMEOUT")) : 60;
  signal(SIGALRM, [](int) {
    static const char msg[] = "\nVP-WATCHDOG: the case did not finish within the watchdog time (hang)\n";
    if (::write(2, msg, sizeof msg - 1) < 0) {
    }
    abort();
  });
  if (mode == "replay") {
    if (argc < 3) return 2;
    Json::Value c = jload(argv[2]);
    if (c.isMember("case")) {
      c = c["case"];
    }
    alarm((unsigned)watchdog_s);
    Verdict v = def.run(c);
    alarm(0);
    Json::Value out(Json::objectValue);
    out["ok"] = v.ok;
    out["why"] = v.why;
    out["nontrivial"] = v.nontrivial;
    out["discard"] = v.discard;
    if (!v.detail.isNull()) out["detail"] = v.detail;
    printf("%s\n", jstr(out).c_str());
    printf(v.ok ? "REPLAY-OK\n" : "REPLAY-FAIL %s\n", v.why.c_str());
    finish(v.ok ? 0 : 1);
  }

  std::string out = argOf(argc, argv, "--out");
  std::string failf = argOf(argc, argv, "--fail");
  std::string cur = argOf(argc, argv, "--cur");
  std::string hashesf = argOf(argc, argv, "--hashes");
  Campaign camp;
  camp.prop = def.prop;

  auto runOne = [&](const Json::Value& c) -> Verdict {
    if (!cur.empty()) {
      jsave(cur, c);
    }
    alarm((unsigned)watchdog_s);
    Verdict v = def.run(c);
    alarm(0);
    if (!camp.failed) {
      camp.note(c, v);
    }
    if (!v.ok && !v.discard) {
      camp.failed = true;
      camp.last_fail = c;
      camp.last_why = v.why;
      camp.last_detail = v.detail;
    }
    return v;
  };
  auto writeOut = [&]() {
    if (!out.empty()) {
      jsave(out, camp.toJson());
    }
    if (!hashesf.empty()) {
      Bypass bp;
      std::ofstream hf(hashesf);
      for (size_t h : camp.nontrivial) hf << std::hex << h << "\n";
    }
    if (camp.failed && !failf.empty()) {
      Json::Value f(Json::objectValue);
      f["property"] = def.prop;
      f["why"] = camp.last_why;
      f["case"] = camp.last_fail;
      if (!camp.last_detail.isNull()) f["detail"] = camp.last_detail;
      jsave(failf, f);
    }
  };

  if (mode == "fixed") {
    // enumerated cases; --from K resumes, VP_SLICE=i/n shards, VP_STRIDE=m samples
    long from = atol(argOf(argc, argv, "--from", "0").c_str());
    long si = 0, sn = 1, stride = 1;
    if (const char* sl = getenv("VP_SLICE")) sscanf(sl, "%ld/%ld", &si, &sn);
    if (const char* st = getenv("VP_STRIDE")) stride = std::max(1L, atol(st));
    long total = 0, next = -1;
    if (def.fixed) {
      auto cases = def.fixed();
      total = (long)cases.size();
      for (long idx = from; idx < total; idx++) {
        // a case marked "always" is never sampled away (it still belongs to one shard)
        bool always = cases[idx].get("always", false).asBool();
        if (always ? (idx % sn != si) : ((idx / stride) % sn != si || idx % stride != 0)) continue;
        Json::Value c = cases[idx];
        if (def.expand) def.expand(c);
        c["_idx"] = (Json::Int64)idx;
        Verdict v = runOne(c);
        if (!v.ok && !v.discard) {
          next = idx + 1;
          break;
        }
      }
    }
    camp.extra["total_cases"] = (Json::Int64)total;
    camp.extra["next_index"] = (Json::Int64)next;
    bool failedNow = camp.failed;
    writeOut();
    finish(failedNow ? 3 : 0);
  }

  if (mode == "gen") {
    long shrink_runs = 0;
    long shrink_budget = getenv("VP_SHRINK_BUDGET") ? atol(getenv("VP_SHRINK_BUDGET")) : 600;
    bool ok = rc::check(def.prop, [&]() {
      Json::Value c = def.gen();
      // other accepted spellings of boolean plugin arguments (see respellBools), drawn after the harness' own
      // generator so that its stream of choices is unchanged
      if (c.isObject() && c.isMember("config") && !c.isMember("bool_spelling") &&
          *rc::gen::resize(100, rc::gen::inRange(0, 100)) < 30) {
        c["bool_spelling"] = *rc::gen::resize(100, rc::gen::inRange(1, 1 << 30));
      }
      if (camp.failed && ++shrink_runs > shrink_budget) {
        // shrinking budget used up: answer "passes" so that rapidcheck stops
        // looking for smaller cases; the last failing case is kept.
        return;
      }
      Verdict v = runOne(c);
      if (v.discard) {
        RC_DISCARD("generator artefact");
      }
      RC_ASSERT(v.ok);
    });
    (void)ok;
    writeOut();
    finish(camp.failed ? 3 : 0);
  }
  return 2;
}

} // namespace vp
