// Harness core: process set-up, daemon-mode interpreter (real Oomd::run driven
// tick by tick), campaign bookkeeping / evidence, and the common main().
#pragma once
#include <json/json.h>
#include <functional>
#include <map>
#include <memory>
#include <set>
#include <string>
#include <unordered_set>
#include <vector>

#include "plugins.h"
#include "shim.h"
#include "simworld.h"

namespace vp {

std::string jstr(const Json::Value& v); // compact, deterministic
Json::Value jparse(const std::string& s);
Json::Value jload(const std::string& file);
void jsave(const std::string& file, const Json::Value& v);

struct Verdict {
  bool ok{true};
  std::string why; // first violated invariant, human readable
  bool nontrivial{false};
  bool discard{false}; // case not valid for this property (generator artefact)
  std::vector<std::string> labels;
  Json::Value detail;
  long weight{1}; // evaluations this case stands for (batches of enumerated sub-cases)
  std::vector<size_t> sub_nontrivial; // hashes of non-trivial sub-cases of a batch
  Json::Value sample; // a representative sub-case for the evidence samples
  void fail(const std::string& w) {
    if (ok) {
      ok = false;
      why = w;
    }
  }
};

// ---- process-wide set-up ---------------------------------------------------
struct Process {
  std::string base; // /dev/shm/vp-<pid>-XXXXXX
  int kmsg_fd{-1};
  std::unique_ptr<Sim> sim;
  static Process& get(); // creates dirs, Log singleton, Stats singleton
  std::string readKmsg(); // whole kmsg file
  void truncateKmsg();
};

// ---- daemon-mode run -------------------------------------------------------
struct RunResult {
  bool config_ok{false};
  std::string config_error;
  std::string exception; // what() of an exception that left Oomd::run
  std::vector<Ev> trace;
  std::vector<World> worlds; // world at the start of tick i (after its ops)
  World final_world;
  std::vector<int64_t> tick_ms; // virtual time at the start of tick i
  std::vector<std::map<std::string, uint64_t>> inode_at_tick; // path -> dir inode at tick start
  std::map<std::string, int> stats_after;
  std::map<uint64_t, std::string> inodes; // every cgroup dir inode -> path
  std::map<uint64_t, std::map<std::string, std::string>> initial_xattrs;
  std::string cgroot;
  int ticks_run{0};
  long accesses{0};
};

// hooks for fault injection (C10): called before every file access of a tick
struct DaemonHooks {
  std::function<AccessDecision(Sim&, const std::string& path, const char* kind, int tick, long k)> on_access;
  bool log_access{false};
  // invoked from vp_probe plugins
  std::function<void(Oomd::OomdContext&, const std::string& id, Sim&)> probe;
  // called at the start of each tick after ops were applied
  std::function<void(Sim&, int tick)> on_tick;
};

// scenario: {"world":..., "config":{...}, "interval":5, "ticks":[{"adv_ms":..,"ops":[..]}..],
//            "scripts":{...}, "dropins":[{"tag":..,"config":{..}} | {"tag":..,"remove":true}], "devs":{"8:0":"ssd"},
//            "dt_unknown":bool }
RunResult runDaemon(const Json::Value& scenario, const DaemonHooks* hooks = nullptr);

// ---- campaign / evidence -----------------------------------------------------
struct Campaign {
  std::string prop;
  long evals{0};
  long discarded{0};
  long excluded_known{0};
  std::unordered_set<size_t> nontrivial;
  std::map<std::string, long> labels;
  std::vector<Json::Value> samples;
  bool failed{false};
  Json::Value last_fail;
  std::string last_why;
  Json::Value last_detail;
  Json::Value extra; // harness specific additions to the output
  void note(const Json::Value& c, const Verdict& v);
  Json::Value toJson() const;
};

struct HarnessDef {
  std::string prop;
  // generate one case; uses *rc::gen::... internally (called inside rc::check)
  std::function<Json::Value()> gen;
  // run one case against the real code and judge it
  std::function<Verdict(const Json::Value&)> run;
  // optional fixed cases executed before the random campaign ("det" mode)
  std::function<std::vector<Json::Value>()> fixed;
  // optional: completes a fixed case just before it runs (the enumerated list then holds only what differs
  // between cases; what is run, saved and replayed is the completed, self-contained case)
  std::function<void(Json::Value&)> expand;
};

// argv: gen --out F --fail F --cur F | replay FILE | fixed --out F --fail F
int harnessMain(int argc, char** argv, const HarnessDef& def);

// convenience for oracles
std::string relOf(const std::string& cgroot, const std::string& abspath);

} // namespace vp
