// C02 / C05 / C06: engine firing rule, post-action delay, async continuation.
// One harness, three generator biases (VP_PROP). Oracle: EngineModel equality on
// the complete call log of scripted plugins driven through the real main loop.
#include "core.h"
#include "enginemodel.h"
#include "gen_common.h"

using namespace vp;
using namespace vpgen;
using namespace vpe;

static std::string PROP = "C02";

static Json::Value pluginJson(const char* name, const std::string& id) {
  Json::Value p(Json::objectValue);
  p["name"] = name;
  p["args"]["id"] = id;
  return p;
}

static Json::Value gen() {
  Json::Value sc(Json::objectValue);
  Json::Value cfg(Json::objectValue);
  cfg["rulesets"] = Json::Value(Json::arrayValue);
  int nrs = R(1, PROP == "C02" ? 4 : 3);
  int nticks = R(3, 15);
  Json::Value scripts(Json::objectValue);
  bool asyncBias = PROP == "C06" || (PROP == "C05" && P(50));
  for (int i = 0; i < nrs; i++) {
    Json::Value rs(Json::objectValue);
    rs["name"] = "rs" + std::to_string(i);
    int ng = R(1, 3);
    for (int j = 0; j < ng; j++) {
      Json::Value dg(Json::arrayValue);
      dg.append("g" + std::to_string(j));
      int nd = R(1, 3);
      for (int k = 0; k < nd; k++) {
        std::string id = "r" + std::to_string(i) + "g" + std::to_string(j) + "d" + std::to_string(k);
        dg.append(pluginJson("vp_detector", id));
        // verdict per tick; fire often enough that chains start
        int pC = PROP == "C06" ? 45 : 70;
        for (int t = 0; t < nticks; t++) {
          int c = W({pC, 100 - pC - 8, 8});
          scripts["detectors"][id].append(c == 0 ? "C" : c == 1 ? "S" : "A");
        }
      }
      rs["detectors"].append(dg);
    }
    int na = R(1, 4);
    for (int k = 0; k < na; k++) {
      std::string id = "r" + std::to_string(i) + "a" + std::to_string(k);
      rs["actions"].append(pluginJson("vp_action", id));
      for (int t = 0; t < nticks; t++) {
        Json::Value e(Json::objectValue);
        int c = asyncBias ? W({40, 25, 35}) : W({50, 35, 15});
        e["r"] = c == 0 ? "C" : c == 1 ? "S" : "A";
        if (c == 1 && P(PROP == "C05" ? 60 : 30)) e["pause"] = R(0, 20);
        if (P(12)) e["sleep_ms"] = P(50) ? R(1, 999) : R(1000, 9000);
        scripts["actions"][id].append(e);
      }
    }
    if (P(PROP == "C05" ? 75 : 50)) rs["post_action_delay"] = std::to_string(P(20) ? 0 : R(0, 20));
    if (P(30)) rs["prekill_hook_timeout"] = std::to_string(R(0, 10));
    int sl = W({60, 15, 15, 10});
    if (sl == 1) rs["silence-logs"] = "engine";
    if (sl == 2) rs["silence-logs"] = "plugins";
    if (sl == 3) rs["silence-logs"] = "engine,plugins";
    cfg["rulesets"].append(rs);
  }
  sc["config"] = cfg;
  sc["interval"] = 5;
  World w;
  Cg root;
  w.cgs.push_back(root);
  WorldGen wg;
  wg.genHost();
  w.host = wg.w.host;
  sc["world"] = w.toJson();
  Json::Value ticks(Json::arrayValue);
  for (int t = 0; t < nticks; t++) {
    Json::Value tick(Json::objectValue);
    int kind = W({55, 35, 10});
    int adv = kind == 0 ? R(1, 5) : kind == 1 ? R(0, 20) : R(20, 60);
    tick["adv_ms"] = adv * 1000 + subsecMs();
    tick["ops"] = Json::Value(Json::arrayValue);
    ticks.append(tick);
  }
  sc["ticks"] = ticks;
  sc["scripts"] = scripts;
  return sc;
}

static std::vector<RsSpec> specsOf(const Json::Value& cfg) {
  std::vector<RsSpec> out;
  for (auto& rs : cfg["rulesets"]) {
    RsSpec s;
    s.name = rs["name"].asString();
    for (auto& dg : rs["detectors"]) {
      GroupSpec g;
      g.name = dg[0].asString();
      for (Json::ArrayIndex i = 1; i < dg.size(); i++) g.dets.push_back(dg[i]["args"]["id"].asString());
      s.groups.push_back(g);
    }
    for (auto& a : rs["actions"]) s.actions.push_back(a["args"]["id"].asString());
    if (rs.isMember("post_action_delay")) s.delay = atoi(rs["post_action_delay"].asCString());
    if (rs.isMember("prekill_hook_timeout")) s.hook_timeout = atoi(rs["prekill_hook_timeout"].asCString());
    out.push_back(s);
  }
  return out;
}

static Verdict run(const Json::Value& sc) {
  Verdict v;
  RunResult R = runDaemon(sc);
  if (!R.config_ok) {
    v.fail("valid configuration rejected: " + R.config_error);
    return v;
  }
  if (!R.exception.empty()) {
    v.fail(R.exception);
    return v;
  }
  auto specs = specsOf(sc["config"]);
  auto script = scriptsOf(sc["scripts"]);
  std::vector<RsState> states(specs.size());
  int next_chain = 1;
  int nticks = sc["ticks"].size();
  // observed, per tick
  std::vector<std::vector<const Ev*>> runs(nticks), preruns(nticks);
  std::map<std::string, int64_t> serialOf;
  for (auto& e : R.trace) {
    if (e.k != "plugin" || e.tick < 0 || e.tick >= nticks) continue;
    if (e.s == "run") runs[e.tick].push_back(&e);
    if (e.s == "prerun") preruns[e.tick].push_back(&e);
    if (e.s == "run" || e.s == "prerun") {
      auto it = serialOf.find(e.s2);
      if (it == serialOf.end()) {
        serialOf[e.s2] = e.a;
      } else if (it->second != e.a) {
        v.fail("plugin " + e.s2 + " was run on two different objects");
      }
    }
  }
  // main-loop order: every prerun of a tick happens before the first run()
  {
    std::vector<long> lastPrerun(nticks, -1), firstRun(nticks, -1);
    long idx = 0;
    for (auto& e : R.trace) {
      idx++;
      if (e.k != "plugin" || e.tick < 0 || e.tick >= nticks) continue;
      if (e.s == "prerun") lastPrerun[e.tick] = idx;
      if (e.s == "run" && firstRun[e.tick] < 0) firstRun[e.tick] = idx;
    }
    for (int t = 0; t < nticks; t++)
      if (firstRun[t] >= 0 && lastPrerun[t] > firstRun[t]) v.fail("a plugin ran before every prerun of tick " + std::to_string(t) + " had been executed");
  }
  std::set<std::string> allIds;
  for (auto& s : specs) {
    for (auto& g : s.groups)
      for (auto& d : g.dets) allIds.insert(d);
    for (auto& a : s.actions) allIds.insert(a);
  }
  std::map<int, std::string> chainUuid;
  std::map<std::string, int> uuidChain;
  // bookkeeping for non-triviality
  std::vector<int> asyncRun(specs.size(), 0); // consecutive ticks suspended with no group firing
  for (int t = 0; t < nticks; t++) {
    int64_t now = R.tick_ms[t];
    std::string at = " at tick " + std::to_string(t) + " (t=" + std::to_string(now) + "ms)";
    // preruns: exactly once per plugin
    std::multiset<std::string> pr;
    for (auto* e : preruns[t]) pr.insert(e->s2);
    for (auto& id : allIds) {
      if (pr.count(id) != 1) v.fail("prerun of " + id + " executed " + std::to_string(pr.count(id)) + " times" + at);
    }
    std::vector<Expect> exp;
    std::vector<bool> chainRan(specs.size(), false), someGroupSilent(specs.size(), false);
    for (size_t i = 0; i < specs.size(); i++) {
      size_t before = exp.size();
      bool wasSusp = states[i].suspended;
      int64_t pauseBefore = states[i].pause_until;
      stepRuleset(specs[i], states[i], "", t, now, script, next_chain, exp);
      bool anyFire = false;
      for (auto& g : specs[i].groups) {
        bool all = true, hasAsync = false;
        for (auto& d : g.dets) {
          Json::Value s = script("detectors", d, "", t);
          std::string r = s.isString() ? s.asString() : "S";
          if (r == "S") all = false;
          if (r == "A") hasAsync = true;
        }
        if (!all) someGroupSilent[i] = true;
        if (all) anyFire = true;
        if (all && hasAsync && PROP == "C02") v.nontrivial = true;
      }
      for (size_t k = before; k < exp.size(); k++)
        if (exp[k].action) chainRan[i] = true;
      if (wasSusp && !anyFire) {
        asyncRun[i]++;
        if (asyncRun[i] >= 2 && PROP == "C06") v.nontrivial = true;
        v.labels.push_back("resume_without_fire");
      } else if (!wasSusp) {
        asyncRun[i] = 0;
      }
      if (PROP == "C05") {
        if (pauseBefore != INT64_MIN && now == pauseBefore) {
          v.nontrivial = true;
          v.labels.push_back("tick_exactly_at_t+d");
        }
        if (wasSusp && states[i].pause_until != pauseBefore && !states[i].suspended) {
          // a STOP after >=1 ASYNC
          v.labels.push_back("stop_after_async");
          // did the stopping action specify its own delay?
          for (size_t k = before; k < exp.size(); k++) {
            if (!exp[k].action) continue;
            Json::Value s = script("actions", exp[k].id, "", t);
            if (s.isObject() && s.get("r", "C").asString() == "S" && s.get("pause", -1).asInt() >= 0 && s.get("pause", -1).asInt() != specs[i].delay) {
              v.nontrivial = true;
              if (!anyFire) v.labels.push_back("override_without_fire");
            }
          }
        }
      }
    }
    if (PROP == "C02") {
      for (size_t i = 0; i < specs.size(); i++)
        for (size_t j = 0; j < specs.size(); j++)
          if (i != j && someGroupSilent[i] && chainRan[j]) v.nontrivial = true;
    }
    // compare
    auto& obs = runs[t];
    size_t n = std::min(exp.size(), obs.size());
    for (size_t k = 0; k < n; k++) {
      if (exp[k].id != obs[k]->s2) {
        v.fail("call #" + std::to_string(k) + at + ": expected run of " + exp[k].id + ", observed " + obs[k]->s2);
        break;
      }
      if (!exp[k].action) continue;
      const Json::Value& a = obs[k]->j["actx"];
      if (a["ruleset"].asString() != exp[k].ruleset) v.fail("action " + exp[k].id + " saw ruleset '" + a["ruleset"].asString() + "'" + at);
      if (a["dg"].asString() != exp[k].dg) v.fail("action " + exp[k].id + " saw detector group '" + a["dg"].asString() + "', expected '" + exp[k].dg + "'" + at);
      if (a["deadline_ms"].isNull() || a["deadline_ms"].asInt64() != exp[k].deadline_ms)
        v.fail("action " + exp[k].id + " saw prekill deadline " + jstr(a["deadline_ms"]) + ", expected " + std::to_string(exp[k].deadline_ms) + at);
      if (!a["target"].isNull()) v.fail("action " + exp[k].id + " saw a target cgroup in a ruleset without cgroup" + at);
      std::string uuid = a["uuid"].asString();
      if (uuid.empty()) v.fail("action " + exp[k].id + " saw an empty run uuid" + at);
      auto cu = chainUuid.find(exp[k].chain);
      if (cu == chainUuid.end()) {
        if (uuidChain.count(uuid)) v.fail("run uuid reused by a new chain" + at);
        chainUuid[exp[k].chain] = uuid;
        uuidChain[uuid] = exp[k].chain;
      } else if (cu->second != uuid) {
        v.fail("action " + exp[k].id + " saw a different run uuid than the chain was fired with" + at);
      }
    }
    if (v.ok && exp.size() != obs.size()) {
      if (exp.size() > obs.size()) {
        v.fail("missing call" + at + ": expected run of " + exp[n].id + " after " + std::to_string(n) + " calls");
      } else {
        v.fail("unexpected call" + at + ": run of " + obs[n]->s2 + " after " + std::to_string(n) + " expected calls");
      }
    }
    if (!v.ok) break;
  }
  return v;
}

int main(int argc, char** argv) {
  if (getenv("VP_PROP")) PROP = getenv("VP_PROP");
  HarnessDef d;
  d.prop = PROP;
  d.gen = gen;
  d.run = run;
  return harnessMain(argc, argv, d);
}
