// EngineModel: reference model of the documented ruleset semantics
// (docs/configuration.md, property statements C02/C05/C06/C11). Written from the
// statements, not from Ruleset.cpp.
#pragma once
#include <json/json.h>
#include <climits>
#include <functional>
#include <string>
#include <vector>

namespace vpe {

struct GroupSpec {
  std::string name;
  std::vector<std::string> dets; // detector ids
};
struct RsSpec {
  std::string name;
  std::vector<GroupSpec> groups;
  std::vector<std::string> actions; // action ids
  int delay{15}; // post_action_delay (s)
  int hook_timeout{5}; // prekill_hook_timeout (s)
};

struct Expect {
  std::string id;
  bool action{false};
  std::string ruleset, dg;
  int chain{0}; // equivalence class of the run uuid
  int64_t deadline_ms{0};
  std::string key; // instance key (ruleset cgroup) or ""
};

// (kind, id, key, tick) -> script entry (see plugins.cpp lookup)
using ScriptFn = std::function<Json::Value(const char*, const std::string&, const std::string&, int)>;

inline ScriptFn scriptsOf(const Json::Value& scripts) {
  return [scripts](const char* kind, const std::string& id, const std::string& key, int tick) -> Json::Value {
    const Json::Value& tbl = scripts[kind];
    const Json::Value* e = nullptr;
    if (!key.empty() && tbl.isMember(id + "@" + key)) {
      e = &tbl[id + "@" + key];
    } else if (tbl.isMember(id)) {
      e = &tbl[id];
    } else if (tbl.isMember("*")) {
      e = &tbl["*"];
    }
    if (!e) return Json::Value();
    if (e->isArray()) {
      if (tick >= 0 && tick < (int)e->size()) return (*e)[tick];
      return Json::Value();
    }
    return *e;
  };
}

struct RsState {
  int64_t pause_until{INT64_MIN};
  bool suspended{false};
  int susp_idx{0};
  std::string susp_dg;
  int susp_chain{0};
  int64_t susp_deadline{0};
};

// one tick of one ruleset instance; appends the expected run() calls
inline void stepRuleset(
    const RsSpec& rs,
    RsState& st,
    const std::string& key,
    int tick,
    int64_t& now_ms, // advanced by actions that take time ("sleep_ms")
    const ScriptFn& script,
    int& next_chain,
    std::vector<Expect>& out) {
  // every detector of every group runs, whatever happens
  std::string fired_dg;
  bool fired = false;
  for (auto& g : rs.groups) {
    bool all = true;
    for (auto& d : g.dets) {
      Expect e;
      e.id = d;
      e.key = key;
      out.push_back(e);
      Json::Value s = script("detectors", d, key, tick);
      std::string r = s.isString() ? s.asString() : "S";
      if (r != "C" && r != "A") r = "S";
      if (r == "S") all = false; // ASYNC_PAUSED counts as CONTINUE
    }
    if (all && !fired) {
      fired = true;
      fired_dg = g.name;
    }
  }
  size_t start = 0;
  std::string dg;
  int chain = 0;
  int64_t deadline = 0;
  if (st.suspended) {
    start = st.susp_idx;
    dg = st.susp_dg;
    chain = st.susp_chain;
    deadline = st.susp_deadline;
    st.suspended = false;
  } else {
    if (!fired) return;
    if (now_ms < st.pause_until) return; // inside the post-action pause
    start = 0;
    dg = fired_dg;
    chain = next_chain++;
    deadline = now_ms + int64_t(rs.hook_timeout) * 1000;
  }
  for (size_t i = start; i < rs.actions.size(); i++) {
    Expect e;
    e.id = rs.actions[i];
    e.action = true;
    e.ruleset = rs.name;
    e.dg = dg;
    e.chain = chain;
    e.deadline_ms = deadline;
    e.key = key;
    out.push_back(e);
    Json::Value s = script("actions", rs.actions[i], key, tick);
    std::string r = "C";
    int pause = -1;
    if (s.isString()) {
      r = s.asString();
    } else if (s.isObject()) {
      r = s.get("r", "C").asString();
      pause = s.get("pause", -1).asInt();
      now_ms += s.get("sleep_ms", 0).asInt64(); // the action took that long; the pause starts when it returns
    }
    if (r == "S") {
      int d = pause >= 0 ? pause : rs.delay;
      st.pause_until = now_ms + int64_t(d) * 1000;
      return;
    }
    if (r == "A") {
      st.suspended = true;
      st.susp_idx = (int)i;
      st.susp_dg = dg;
      st.susp_chain = chain;
      st.susp_deadline = deadline;
      return;
    }
  }
}

} // namespace vpe
