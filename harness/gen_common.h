// rapidcheck generator helpers shared by the daemon-mode properties.
// All random choices go through rapidcheck (imperative *gen picks inside the
// property body / gen::exec), so shrinking and replay work.
#pragma once
#include <rapidcheck.h>
#include <algorithm>
#include <string>
#include <vector>

#include "simworld.h"

namespace vpgen {

using vp::Cg;
using vp::Host;
using vp::kMax;
using vp::Op;
using vp::Proc;
using vp::Psi;
using vp::World;

inline int R(int lo, int hi) {
  if (hi <= lo) return lo;
  return *rc::gen::resize(100, rc::gen::inRange(lo, hi + 1));
}
inline int64_t R64(int64_t lo, int64_t hi) {
  if (hi <= lo) return lo;
  return *rc::gen::resize(100, rc::gen::inRange<int64_t>(lo, hi));
}
// true with probability pct/100; shrinks towards false
inline bool P(int pct) {
  return R(0, 99) >= 100 - pct;
}
template <class T>
T oneOf(const std::vector<T>& v) {
  return v[R(0, (int)v.size() - 1)];
}
// weighted choice; shrinks towards index 0
inline int W(const std::vector<int>& weights) {
  int tot = 0;
  for (int w : weights) tot += w;
  int r = R(0, tot - 1);
  for (size_t i = 0; i < weights.size(); i++) {
    if (r < weights[i]) return (int)i;
    r -= weights[i];
  }
  return 0;
}

// page-aligned byte count below 2^maxlog2 (log-uniform)
inline int64_t pages(int maxlog2) {
  int e = R(12, maxlog2);
  int64_t hi = (int64_t(1) << e);
  int64_t v = R64(0, hi);
  return v & ~int64_t(0xFFF);
}

inline Psi genPsi(bool legacy = false) {
  Psi p;
  for (int i = 0; i < 3; i++) {
    p.some[i] = P(60) ? R(0, 10000) : 0;
    p.full[i] = P(60) ? R(0, p.some[i]) : 0;
  }
  p.some_total = (uint64_t)R64(0, int64_t(1) << 40);
  p.full_total = (uint64_t)R64(0, (int64_t)p.some_total + 1);
  p.legacy = legacy;
  return p;
}

struct Profile {
  int maxlog2{40}; // sizes below 2^maxlog2
  int max_pids{45};
  bool zero_lines{true};
  bool outcomes{true}; // non-"dies" kill outcomes
  bool prefs{true}; // prefer/avoid xattrs
  bool oom_group{true};
  bool legacy_psi{false};
  int unkillable_pct{20};
  int oomd_xattr_pct{0}; // pre-existing oomd_ooms / oomd_kill counters
  bool glob_names{false}; // cgroups whose own name contains a glob metacharacter ("a*")
};

struct WorldGen {
  Profile prof;
  int next_pid{100};
  World w;

  static const std::vector<std::string>& vocab() {
    static const std::vector<std::string> v = {
        "a", "ab", "a.b", "a-1", "b", "ba", "w-x.slice", "w-y.slice"};
    return v;
  }

  // pid numbers as real hosts have them: kernel.pid_max is 4194304 on 64-bit systemd hosts, so listed pids
  // have one to seven digits; the sequential allocation is started just below a digit-length boundary in a
  // part of the worlds so that cgroup.procs lines of every length (and mixed lengths in one file) occur
  bool pid_base_chosen{false};
  void choosePidBase() {
    if (pid_base_chosen) return;
    pid_base_chosen = true;
    switch (W({55, 9, 9, 9, 9, 9})) {
      case 1:
        next_pid = 32768 - R(1, 40);
        break;
      case 2:
        next_pid = 100000 - R(1, 40);
        break;
      case 3:
        next_pid = 1000000 - R(0, 40);
        break;
      case 4:
        next_pid = R(1000000, 4194303 - 2000);
        break;
      case 5:
        next_pid = 4194303 - 2000 + R(0, 1000);
        break;
      default:
        break;
    }
  }

  std::vector<int> genPids(bool leaf) {
    choosePidBase();
    std::vector<int> r;
    int cls = leaf ? W({25, 40, 20, 15}) : W({75, 20, 5, 0});
    int n = 0;
    switch (cls) {
      case 0:
        n = 0;
        break;
      case 1:
        n = R(1, 3);
        break;
      case 2:
        n = R(4, 19);
        break;
      case 3:
        n = R(20, prof.max_pids);
        break;
    }
    for (int i = 0; i < n; i++) r.push_back(next_pid++);
    return r;
  }

  void genOutcomes(const std::vector<int>& pids) {
    if (!prof.outcomes) return;
    bool unkillable = !pids.empty() && P(prof.unkillable_pct);
    for (int p : pids) {
      Proc pr;
      int c = unkillable ? R(2, 3) : W({80, 8, 6, 6});
      if (c == 1) {
        pr.outcome = "linger";
        pr.n = R(1, 3);
      } else if (c == 2) {
        pr.outcome = "eperm";
      } else if (c == 3) {
        pr.outcome = "esrch";
      }
      if (c) w.procs[p] = pr;
    }
  }

  Cg genCg(const std::string& path, bool leaf) {
    Cg c;
    c.path = path;
    c.pids = genPids(leaf);
    genOutcomes(c.pids);
    if (prof.zero_lines && P(10)) c.zero_lines = R(1, 2);
    if (c.pids.empty() && P(5)) c.zombie = true;
    c.mem_current = pages(prof.maxlog2);
    if (P(30)) c.mem_min = pages(prof.maxlog2);
    if (P(30)) c.mem_low = pages(prof.maxlog2);
    if (P(20)) c.mem_high = pages(prof.maxlog2);
    if (P(20)) c.mem_max = pages(prof.maxlog2);
    if (P(60)) c.swap_current = pages(prof.maxlog2);
    if (P(30)) c.swap_max = pages(prof.maxlog2);
    c.mem_psi = genPsi(prof.legacy_psi && P(30));
    c.io_psi = genPsi(prof.legacy_psi && P(30));
    int64_t anon = R64(0, c.mem_current + 1) & ~int64_t(0xFFF);
    int64_t file = c.mem_current - anon;
    int64_t act = R64(0, file + 1) & ~int64_t(0xFFF);
    c.stat = {
        {"anon", anon},
        {"file", file},
        {"kernel_stack", 16384},
        {"shmem", 0},
        {"inactive_anon", anon},
        {"active_anon", 0},
        {"inactive_file", file - act},
        {"active_file", act},
        {"pgscan", R64(0, 1000000)},
        {"pgsteal", 0}};
    vp::IoDev d;
    d.major = 8;
    d.minor = 0;
    d.rbytes = R64(0, 1 << 30);
    d.wbytes = R64(0, 1 << 30);
    d.rios = R64(0, 100000);
    d.wios = R64(0, 100000);
    c.io_stat.push_back(d);
    if (prof.oom_group && P(15)) c.oom_group = 1;
    if (P(70)) c.pids_current = (int64_t)c.pids.size();
    if (prof.prefs) {
      int k = W({64, 10, 10, 4, 4, 2, 3, 3});
      if (k == 6) {
        c.xattrs["user.oomd_prefer"] = "1";
        c.xattrs["trusted.oomd_avoid"] = "1";
      }
      if (k == 7) {
        c.xattrs["trusted.oomd_prefer"] = "1";
        c.xattrs["user.oomd_avoid"] = "1";
      }
      if (k == 1) c.xattrs["trusted.oomd_prefer"] = "1";
      if (k == 2) c.xattrs["trusted.oomd_avoid"] = "1";
      if (k == 3) c.xattrs["user.oomd_prefer"] = "1";
      if (k == 4) c.xattrs["user.oomd_avoid"] = "1";
      if (k == 5) {
        c.xattrs["trusted.oomd_prefer"] = "1";
        c.xattrs["trusted.oomd_avoid"] = "1";
      }
    }
    if (prof.oomd_xattr_pct) {
      for (const char* name : {"trusted.oomd_ooms", "user.oomd_ooms", "trusted.oomd_kill", "user.oomd_kill"}) {
        if (P(prof.oomd_xattr_pct)) c.xattrs[name] = std::to_string(P(70) ? R(0, 50) : R(0, 1 << 30));
      }
    }
    return c;
  }

  void genChildren(const std::string& parent, int depth, int maxdepth, int& budget) {
    int n = depth == 0 ? R(1, 4) : R(1, 3);
    std::vector<std::string> names = vocab();
    // a cgroup literally called "a*" next to "a", "a.b", "a-1": its name read as a pattern matches them
    if (prof.glob_names && P(35)) names[1] = "a*";
    // deterministic rotation picked by the generator so that sibling sets vary
    int rot = R(0, (int)names.size() - 1);
    std::rotate(names.begin(), names.begin() + rot, names.end());
    for (int i = 0; i < n && budget > 0; i++) {
      std::string path = parent.empty() ? names[i] : parent + "/" + names[i];
      bool inner = depth + 1 < maxdepth && budget > 1 && P(depth == 0 ? 55 : 35);
      budget--;
      size_t idx = w.cgs.size();
      w.cgs.push_back(genCg(path, !inner));
      if (inner) {
        genChildren(path, depth + 1, maxdepth, budget);
      }
      (void)idx;
    }
  }

  void genHost() {
    Host& h = w.host;
    int64_t memtotal_kb = R64(1 << 20, int64_t(1) << 28);
    int64_t memfree_kb = R64(0, memtotal_kb);
    int64_t swaptotal_kb = P(80) ? R64(0, int64_t(1) << 26) : 0;
    int64_t swapused_kb = swaptotal_kb ? R64(0, swaptotal_kb) : 0;
    h.meminfo = {
        {"MemTotal", memtotal_kb},
        {"MemFree", memfree_kb},
        {"MemAvailable", memfree_kb},
        {"Buffers", 1024},
        {"Cached", 4096},
        {"SwapCached", 0},
        {"SwapTotal", swaptotal_kb},
        {"SwapFree", swaptotal_kb - swapused_kb}};
    h.vmstat = {
        {"nr_free_pages", memfree_kb / 4},
        {"pgscan_kswapd", R64(0, 1000000)},
        {"pgscan_direct", R64(0, 1000000)},
        {"pswpin", R64(0, 1000000)},
        {"pswpout", R64(0, 1000000)}};
    if (swaptotal_kb) h.swaps.push_back({swaptotal_kb, swapused_kb});
    h.mem_psi = genPsi();
    h.io_psi = genPsi();
    h.swappiness = R(0, 100);
    h.rotational["8:0"] = 0;
  }

  World build(int maxdepth = 3, int budget = 14) {
    w = World();
    Cg root;
    root.path = "";
    root.stat = {{"anon", 0}, {"file", 0}, {"pgscan", 0}};
    w.cgs.push_back(root);
    genChildren("", 0, maxdepth, budget);
    genHost();
    return w;
  }
};

// a size argument (memory_above / kill_by_swap_usage thresholds) in one of the
// documented forms together with its exact byte value, computed here with
// integer arithmetic (independent of Util::parseSize*)
struct SizeArg {
  std::string text;
  int64_t bytes;
};
inline SizeArg genSizeArg(int64_t totalBytes, int maxUnit = 3) {
  SizeArg t;
  int form = W({30, 25, 45});
  if (form == 0) {
    int n = R(0, 100);
    t.text = std::to_string(n) + "%";
    t.bytes = (int64_t)((__int128)totalBytes * n / 100);
  } else if (form == 1) {
    int64_t mb = R64(0, 1 << 20);
    t.text = std::to_string(mb);
    t.bytes = mb << 20;
  } else {
    int unit = R(0, maxUnit); // K M G T
    static const char* U = "KMGT";
    int64_t mant = unit == 3 ? R(0, 64) : R(0, 4096);
    bool half = P(30);
    int64_t mul = int64_t(1) << (10 * (unit + 1));
    t.bytes = mant * mul + (half ? mul / 2 : 0);
    t.text = std::to_string(mant) + (half ? ".5" : "") + std::string(1, U[unit]);
    if (P(20)) {
      int64_t extra = R(0, 4096);
      t.text += " " + std::to_string(extra) + "K";
      t.bytes += extra << 10;
    }
  }
  return t;
}

// ticks are not aligned to whole seconds: a sub-second offset for a tick advance
inline int subsecMs() {
  return P(40) ? R(1, 999) : 0;
}

// a `cgroup` argument: 1-3 comma separated patterns over the tree
inline std::string genCgroupArg(const World& w, bool allowRoot = true) {
  std::vector<std::string> paths;
  for (auto& c : w.cgs)
    if (!c.path.empty()) paths.push_back(c.path);
  int n = W({70, 20, 10}) + 1;
  std::string out;
  for (int i = 0; i < n; i++) {
    std::string pat;
    int kind = W({45, 30, 10, allowRoot ? 7 : 0, 8, 4});
    std::string base = paths.empty() ? "a" : oneOf(paths);
    switch (kind) {
      case 0: // literal path of the tree (a metacharacter in a name is escaped to mean itself, mostly)
        pat = base;
        if (pat.find('*') != std::string::npos && P(70)) {
          std::string esc;
          for (char ch : pat) esc += ch == '*' ? std::string("[*]") : std::string(1, ch);
          pat = esc;
        }
        break;
      case 1: { // replace one component by * or x*
        auto comps = std::vector<std::string>();
        size_t s = 0;
        while (true) {
          auto e = base.find('/', s);
          comps.push_back(base.substr(s, e == std::string::npos ? e : e - s));
          if (e == std::string::npos) break;
          s = e + 1;
        }
        int k = R(0, (int)comps.size() - 1);
        int style = W({50, 30, 20});
        if (style == 0) {
          comps[k] = "*";
        } else if (style == 1) {
          comps[k] = comps[k].substr(0, 1) + "*";
        } else {
          comps[k] = "?" + comps[k].substr(1);
        }
        for (size_t j = 0; j < comps.size(); j++) pat += (j ? "/" : "") + comps[j];
        break;
      }
      case 2: // everything at top level
        pat = "*";
        break;
      case 3:
        pat = "/";
        break;
      case 4: // does not exist
        pat = base + "/nonexistent";
        break;
      case 5: // a blank entry ("a, " / "a, ,b"): names a cgroup called " ", which does not exist
        pat = oneOf(std::vector<std::string>{" ", "  ", "\t"});
        break;
    }
    out += (i ? "," : "") + pat;
  }
  return out;
}

} // namespace vpgen
