// Shared by the kill-plugin properties (C01, C03, C04, C07, C09, C17):
// scenario generator and segmentation of the boundary trace into kill-plugin
// invocations and per-victim attempts.
#pragma once
#include "core.h"
#include "gen_common.h"
#include "models.h"

namespace vpk {

using namespace vpgen;

inline const std::vector<std::string>& killPlugins() {
  static const std::vector<std::string> v = {
      "kill_by_memory_size_or_growth",
      "kill_by_swap_usage",
      "kill_by_pressure",
      "kill_by_io_cost",
      "kill_by_pg_scan"};
  return v;
}

struct KillOpts {
  Profile prof;
  int min_ticks{1}, max_ticks{6};
  int dry_pct{10};
  int kernelkill_pct{20};
  int always_continue_pct{15};
  int two_rulesets_pct{25};
  int ops_pct{45}; // chance per tick of a structural op
  bool allow_root{true};
  int recursive_pct{50};
  int fire_pct{75};
  std::string force_plugin;
};

inline Json::Value genKillAction(const World& w, const KillOpts& o, const std::string& forceDry = "") {
  Json::Value a(Json::objectValue);
  std::string name = o.force_plugin.empty() ? oneOf(killPlugins()) : o.force_plugin;
  a["name"] = name;
  Json::Value& args = a["args"];
  args = Json::Value(Json::objectValue);
  args["cgroup"] = genCgroupArg(w, o.allow_root);
  if (P(o.recursive_pct)) args["recursive"] = "true";
  if (P(o.kernelkill_pct)) args["kernelkill"] = "true";
  if (P(30)) args["reap_memory"] = P(50) ? "false" : "true";
  if (P(o.always_continue_pct)) args["always_continue"] = "true";
  if (forceDry.empty()) {
    if (P(o.dry_pct)) args["dry"] = "true";
  } else {
    args["dry"] = forceDry;
  }
  if (P(50)) args["post_action_delay"] = std::to_string(R(0, 20));
  if (P(10)) args["debug"] = "true";
  if (name == "kill_by_pressure") {
    args["resource"] = P(50) ? "io" : "memory";
  } else if (name == "kill_by_swap_usage") {
    if (P(50)) args["threshold"] = std::to_string(R(0, 64)) + (P(30) ? "%" : "M");
    if (P(30)) args["biased_swap_kill"] = "true";
  } else if (name == "kill_by_memory_size_or_growth") {
    if (P(50)) args["size_threshold"] = std::to_string(R(0, 100));
    if (P(50)) args["growing_size_percentile"] = std::to_string(R(0, 99));
    if (P(50)) args["min_growth_ratio"] = std::to_string(R(0, 3));
  }
  return a;
}

inline Json::Value rulesetJson(int i, const Json::Value& killAction, int post_action_delay = -1) {
  Json::Value rs(Json::objectValue);
  rs["name"] = "rs" + std::to_string(i);
  Json::Value det(Json::objectValue);
  det["name"] = "vp_detector";
  det["args"]["id"] = "d" + std::to_string(i);
  Json::Value dg(Json::arrayValue);
  dg.append("dg" + std::to_string(i));
  dg.append(det);
  rs["detectors"].append(dg);
  Json::Value pre(Json::objectValue);
  pre["name"] = "vp_action";
  pre["args"]["id"] = "pre" + std::to_string(i);
  rs["actions"].append(pre);
  rs["actions"].append(killAction);
  Json::Value after(Json::objectValue);
  after["name"] = "vp_action";
  after["args"]["id"] = "after" + std::to_string(i);
  rs["actions"].append(after);
  if (post_action_delay >= 0) rs["post_action_delay"] = std::to_string(post_action_delay);
  return rs;
}

// per-tick mutations of the world as seen by the generator (ignores kills)
inline Json::Value genTickOps(WorldGen& wg, World& view, const KillOpts& o, std::set<std::string>& removed) {
  Json::Value ops(Json::arrayValue);
  // statistics drift: a few "set" ops
  int nset = R(0, 3);
  std::vector<std::string> paths;
  for (auto& c : view.cgs)
    if (!c.path.empty()) paths.push_back(c.path);
  for (int i = 0; i < nset && !paths.empty(); i++) {
    Cg* c = view.find(oneOf(paths));
    if (!c) continue;
    for (auto& kv : c->stat)
      if (kv.first == "pgscan") kv.second += R64(0, 100000);
    if (!c->io_stat.empty()) {
      c->io_stat[0].rbytes += R64(0, 1 << 24);
      c->io_stat[0].wios += R64(0, 1000);
    }
    if (P(50)) c->mem_current = pages(wg.prof.maxlog2);
    if (P(30)) c->swap_current = pages(wg.prof.maxlog2);
    // attributes oomd must re-read every tick: memory.oom.group and the prefer / avoid marks
    if (wg.prof.oom_group && P(20)) c->oom_group = c->oom_group ? 0 : 1;
    if (wg.prof.prefs && P(20)) {
      bool had = false;
      for (const char* n : {"trusted.oomd_prefer", "trusted.oomd_avoid", "user.oomd_prefer", "user.oomd_avoid"}) had = c->xattrs.erase(n) || had;
      if (!had || P(50)) c->xattrs[oneOf(std::vector<std::string>{"trusted.oomd_prefer", "trusted.oomd_avoid", "user.oomd_prefer", "user.oomd_avoid"})] = "1";
    }
    Op op;
    op.op = "set";
    op.cg = *c;
    op.cg.pids.clear(); // "set" keeps live pids and adds these
    if (P(25)) {
      int n = R(1, 4);
      for (int k = 0; k < n; k++) {
        op.cg.pids.push_back(wg.next_pid);
        c->pids.push_back(wg.next_pid++);
      }
    }
    ops.append(op.toJson());
  }
  if (P(o.ops_pct) && !paths.empty()) {
    int kind = W({40, 30, 30});
    if (kind == 0) { // remove a subtree
      std::string p = oneOf(paths);
      Op op;
      op.op = "rm";
      op.path = p;
      ops.append(op.toJson());
      std::vector<Cg> keep;
      for (auto& c : view.cgs) {
        if (view.isDescendantOrSelf(p, c.path) && !c.path.empty()) continue;
        keep.push_back(c);
      }
      view.cgs = keep;
      removed.insert(p);
    } else if (kind == 1 && !removed.empty()) { // re-create a removed path
      std::vector<std::string> rv(removed.begin(), removed.end());
      std::string p = oneOf(rv);
      auto pos = p.rfind('/');
      std::string par = pos == std::string::npos ? "" : p.substr(0, pos);
      if (view.find(par) && !view.find(p)) {
        Op op;
        op.op = "mk";
        op.cg = wg.genCg(p, true);
        ops.append(op.toJson());
        view.cgs.push_back(op.cg);
        removed.erase(p);
      }
    } else { // a new child somewhere
      std::string par = P(30) ? std::string("") : oneOf(paths);
      std::string name = oneOf(WorldGen::vocab()) + std::to_string(R(0, 3));
      std::string p = par.empty() ? name : par + "/" + name;
      if (!view.find(p) && vpm::splitPath(p).size() <= 4) {
        Op op;
        op.op = "mk";
        op.cg = wg.genCg(p, true);
        ops.append(op.toJson());
        view.cgs.push_back(op.cg);
      }
    }
  }
  return ops;
}

// process outcomes generated after the initial world (wg.w.procs grows inside
// genCg) are shipped as "proc" ops of the tick that introduces them
inline void appendNewProcOps(Json::Value& ops, const std::map<int, Proc>& all, std::set<int>& shipped) {
  Json::Value pre(Json::arrayValue);
  for (auto& kv : all) {
    if (shipped.count(kv.first)) continue;
    shipped.insert(kv.first);
    Op op;
    op.op = "proc";
    op.pid = kv.first;
    op.proc = kv.second;
    pre.append(op.toJson());
  }
  for (auto& o : ops) pre.append(o);
  ops = pre;
}

inline Json::Value genKillScenario(const KillOpts& o) {
  WorldGen wg;
  wg.prof = o.prof;
  World w0 = wg.build();
  Json::Value sc(Json::objectValue);
  int nrs = P(o.two_rulesets_pct) ? 2 : 1;
  Json::Value cfg(Json::objectValue);
  cfg["rulesets"] = Json::Value(Json::arrayValue);
  for (int i = 0; i < nrs; i++) {
    cfg["rulesets"].append(rulesetJson(i, genKillAction(w0, o), P(50) ? R(0, 20) : -1));
  }
  sc["config"] = cfg;
  sc["interval"] = 5;
  sc["devs"]["8:0"] = "ssd";
  int nticks = R(o.min_ticks, o.max_ticks);
  World view = w0;
  std::set<std::string> removed;
  std::set<int> shipped;
  for (auto& kv : wg.w.procs) shipped.insert(kv.first);
  sc["world"] = Json::Value(); // placeholder, filled below (procs complete)
  Json::Value ticks(Json::arrayValue);
  Json::Value scripts(Json::objectValue);
  for (int t = 0; t < nticks; t++) {
    Json::Value tick(Json::objectValue);
    tick["adv_ms"] = P(70) ? 5000 : R(0, 30) * 1000;
    Json::Value ops = t == 0 ? Json::Value(Json::arrayValue) : genTickOps(wg, view, o, removed);
    appendNewProcOps(ops, wg.w.procs, shipped);
    tick["ops"] = ops;
    ticks.append(tick);
    for (int i = 0; i < nrs; i++) {
      scripts["detectors"]["d" + std::to_string(i)].append(P(o.fire_pct) ? "C" : "S");
    }
  }
  // initial world with the outcomes of its own pids only
  {
    World init = w0;
    sc["world"] = init.toJson();
  }
  sc["ticks"] = ticks;
  sc["scripts"] = scripts;
  return sc;
}

// the kill action of ruleset json (chain: pre<i>, kill plugin, after<i>)
inline const Json::Value& killActionOf(const Json::Value& ruleset) {
  for (auto& a : ruleset["actions"]) {
    std::string n = a["name"].asString();
    if (n.compare(0, 8, "kill_by_") == 0 || n == "systemd_restart") return a;
  }
  return ruleset["actions"][0];
}

// ---------------------------------------------------------------- trace ----
struct Attempt {
  std::string victim; // relative path ("" root)
  uint64_t victim_ino{0};
  std::string uuid;
  std::vector<const vp::Ev*> evs; // everything up to the next attempt
  int sig_ok{0}, sig_fail{0};
  bool cgkill_ok{false};
  bool signalled() const {
    return sig_ok > 0 || cgkill_ok;
  }
};

struct Invocation {
  int tick{0};
  int rs{0}; // ruleset index
  std::vector<const vp::Ev*> pre; // boundary events before the first attempt
  std::vector<Attempt> attempts;
  bool after_ran{false}; // the action after the kill plugin ran this tick
  bool pre_ran{false}; // the action before it ran (a fresh chain start)
  std::vector<const vp::Ev*> all;
  std::vector<std::string> kmsg; // kmsg lines written by the plugin
};

inline bool isBoundary(const vp::Ev& e) {
  return e.k == "kill" || e.k == "setxattr" || e.k == "write" || e.k == "pidfd_open" || e.k == "mrelease" || e.k == "sdbus";
}

// ruleset i: detector id "d<i>", kill action first, then vp_action "after<i>"
inline std::vector<Invocation> segment(const vp::RunResult& R) {
  std::vector<Invocation> out;
  Invocation* cur = nullptr;
  bool closed = true;
  for (auto& e : R.trace) {
    if (e.k == "tick" || e.k == "end" || e.k == "teardown") {
      cur = nullptr;
      closed = true;
      continue;
    }
    if (e.k == "plugin" && e.s == "run" && e.j["kind"].asString() == "detector" && e.s2.size() > 1 && e.s2[0] == 'd') {
      out.emplace_back();
      cur = &out.back();
      cur->tick = e.tick;
      cur->rs = atoi(e.s2.c_str() + 1);
      closed = false;
      continue;
    }
    if (!cur || closed) continue;
    if (e.k == "plugin" && e.s == "run" && e.j["kind"].asString() == "action") {
      if (e.s2 == "after" + std::to_string(cur->rs)) {
        cur->after_ran = true;
        closed = true;
      }
      if (e.s2 == "pre" + std::to_string(cur->rs)) cur->pre_ran = true;
      continue;
    }
    if (e.k == "plugin") continue;
    cur->all.push_back(&e);
    if (e.k == "kmsg") {
      cur->kmsg.push_back(e.s);
      continue;
    }
    if (e.k == "setxattr" && e.s == "trusted.oomd_kill_uuid") {
      Attempt a;
      a.victim = vp::relOf(R.cgroot, e.p);
      a.victim_ino = (uint64_t)e.a;
      a.uuid = e.s2;
      cur->attempts.push_back(a);
    }
    if (cur->attempts.empty()) {
      if (isBoundary(e)) cur->pre.push_back(&e);
      continue;
    }
    Attempt& a = cur->attempts.back();
    a.evs.push_back(&e);
    if (e.k == "kill") {
      if (e.ret == 0) {
        a.sig_ok++;
      } else {
        a.sig_fail++;
      }
    }
    if (e.k == "write" && e.ret >= 0 && e.p.size() > 12 && e.p.compare(e.p.size() - 12, 12, "/cgroup.kill") == 0) {
      a.cgkill_ok = true;
    }
  }
  return out;
}

inline std::string dirOfFile(const std::string& cgroot, const std::string& abspath) {
  auto pos = abspath.rfind('/');
  return vp::relOf(cgroot, abspath.substr(0, pos));
}
inline std::string baseOfFile(const std::string& abspath) {
  auto pos = abspath.rfind('/');
  return abspath.substr(pos + 1);
}

} // namespace vpk
