// Reference models written from the property statements and docs/, not from
// the implementation (DESIGN.md 3.5).
#pragma once
#include <set>
#include <string>
#include <vector>

#include "simworld.h"

namespace vpm {

inline std::vector<std::string> splitPath(const std::string& p) {
  std::vector<std::string> r;
  std::string cur;
  for (char ch : p) {
    if (ch == '/') {
      if (!cur.empty()) r.push_back(cur);
      cur.clear();
    } else {
      cur += ch;
    }
  }
  if (!cur.empty()) r.push_back(cur);
  return r;
}
inline std::string joinPath(const std::vector<std::string>& c, size_t n = std::string::npos) {
  std::string r;
  for (size_t i = 0; i < c.size() && i < n; i++) r += (i ? "/" : "") + c[i];
  return r;
}
inline std::vector<std::string> splitComma(const std::string& s) {
  std::vector<std::string> r;
  std::string cur;
  for (char ch : s) {
    if (ch == ',') {
      if (!cur.empty()) r.push_back(cur);
      cur.clear();
    } else {
      cur += ch;
    }
  }
  if (!cur.empty()) r.push_back(cur);
  return r;
}

// shell wildcard match of one path component: '*' any run, '?' one char,
// '[...]' classes; a leading '.' must be matched literally.
inline bool wildMatchRec(const char* p, const char* s) {
  while (*p) {
    if (*p == '*') {
      while (*p == '*') p++;
      if (!*p) return true;
      for (; *s; s++)
        if (wildMatchRec(p, s)) return true;
      return wildMatchRec(p, s);
    }
    if (!*s) return false;
    if (*p == '?') {
      p++;
      s++;
      continue;
    }
    if (*p == '[') {
      const char* q = p + 1;
      bool neg = false;
      if (*q == '!' || *q == '^') {
        neg = true;
        q++;
      }
      bool ok = false;
      bool first = true;
      const char* start = q;
      while (*q && (*q != ']' || first)) {
        first = false;
        if (q[1] == '-' && q[2] && q[2] != ']') {
          if (*s >= q[0] && *s <= q[2]) ok = true;
          q += 3;
        } else {
          if (*q == *s) ok = true;
          q++;
        }
      }
      (void)start;
      if (*q != ']') {
        // unterminated: literal '['
        if (*s != '[') return false;
        p++;
        s++;
        continue;
      }
      if (ok == neg) return false;
      p = q + 1;
      s++;
      continue;
    }
    if (*p == '\\' && p[1]) p++;
    if (*p != *s) return false;
    p++;
    s++;
  }
  return !*s;
}
inline bool wildMatch(const std::string& pat, const std::string& name) {
  if (!name.empty() && name[0] == '.' && (pat.empty() || pat[0] != '.')) return false;
  return wildMatchRec(pat.c_str(), name.c_str());
}

// all existing cgroups (relative paths, "" = root) matching a relative pattern
inline std::set<std::string> globResolve(const vp::World& w, const std::string& pattern) {
  auto comps = splitPath(pattern);
  std::set<std::string> cur = {""};
  for (auto& pc : comps) {
    std::set<std::string> next;
    for (auto& base : cur) {
      for (auto* ch : w.children(base)) {
        std::string name = ch->path.substr(base.empty() ? 0 : base.size() + 1);
        if (wildMatch(pc, name)) next.insert(ch->path);
      }
    }
    cur = next;
  }
  return cur;
}
inline std::set<std::string> resolveArg(const vp::World& w, const std::string& arg) {
  std::set<std::string> r;
  for (auto& p : splitComma(arg)) {
    auto s = globResolve(w, p);
    r.insert(s.begin(), s.end());
  }
  return r;
}
inline bool descendsFromAny(const vp::World& w, const std::set<std::string>& roots, const std::string& p) {
  for (auto& r : roots)
    if (w.isDescendantOrSelf(r, p)) return true;
  return false;
}

// prekill-hook pattern relation (docs/prekill_hooks.md): true iff the path
// equals the pattern, is an ancestor of a possible match, or descends from a
// match; "*" stands for exactly one whole component.
inline bool hookPatternMatches(const std::string& path, const std::string& pattern) {
  auto a = splitPath(path);
  auto b = splitPath(pattern);
  size_t n = std::min(a.size(), b.size());
  for (size_t i = 0; i < n; i++) {
    if (b[i] != "*" && a[i] != b[i]) return false;
  }
  return true;
}

} // namespace vpm
