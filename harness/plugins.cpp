#include "plugins.h"
#include <chrono>
#include <thread>
#include "shim.h"

#include "oomd/OomdContext.h"
#include "oomd/PluginRegistry.h"
#include "oomd/engine/BasePlugin.h"
#include "oomd/engine/PrekillHook.h"
#include "oomd/engine/Ruleset.h"

namespace vp {

Scripts scripts;

namespace {

using Oomd::Engine::PluginRet;
using Oomd::getPluginRegistry;
using Oomd::getPrekillHookRegistry;

Json::Value actxJson(const Oomd::ActionContext& a) {
  Json::Value v(Json::objectValue);
  v["ruleset"] = a.ruleset_name;
  v["dg"] = a.detectorgroup;
  v["uuid"] = a.action_group_run_uuid;
  if (a.prekill_hook_timeout_ts) {
    auto ns = std::chrono::duration_cast<std::chrono::nanoseconds>(
                  a.prekill_hook_timeout_ts->time_since_epoch())
                  .count();
    v["deadline_ms"] = (Json::Int64)((ns - g.base_ns) / 1000000);
  } else {
    v["deadline_ms"] = Json::Value();
  }
  if (a.target_cgroup) {
    v["target"] = a.target_cgroup->relativePath();
  } else {
    v["target"] = Json::Value();
  }
  return v;
}

// script entry for (kind,id[,cgroup]) at the current tick
Json::Value lookup(const char* kind, const std::string& id, const std::string& cg) {
  const Json::Value& tbl = scripts.j[kind];
  const Json::Value* e = nullptr;
  if (!cg.empty() && tbl.isMember(id + "@" + cg)) {
    e = &tbl[id + "@" + cg];
  } else if (tbl.isMember(id)) {
    e = &tbl[id];
  } else if (tbl.isMember("*")) {
    e = &tbl["*"];
  }
  if (!e) {
    return Json::Value();
  }
  if (e->isArray()) {
    int t = g.tick;
    if (t >= 0 && t < (int)e->size()) {
      return (*e)[t];
    }
    return Json::Value();
  }
  return *e;
}

PluginRet toRet(const std::string& s, PluginRet dflt) {
  if (s == "C") return PluginRet::CONTINUE;
  if (s == "S") return PluginRet::STOP;
  if (s == "A") return PluginRet::ASYNC_PAUSED;
  return dflt;
}
const char* retName(PluginRet r) {
  switch (r) {
    case PluginRet::CONTINUE:
      return "C";
    case PluginRet::STOP:
      return "S";
    case PluginRet::ASYNC_PAUSED:
      return "A";
  }
  return "?";
}

class ScriptedBase : public Oomd::Engine::BasePlugin {
 public:
  ScriptedBase(const char* kind) : kind_(kind), serial_(scripts.next_serial++) {}
  ~ScriptedBase() override {
    Ev e;
    e.k = "plugin";
    e.s = "destroy";
    e.s2 = id_;
    e.a = serial_;
    g.log(e);
  }
  int init(
      const Oomd::Engine::PluginArgs& args,
      const Oomd::PluginConstructionContext& context) override {
    Ev e;
    e.k = "plugin";
    e.s = "init";
    e.a = serial_;
    e.j = Json::Value(Json::objectValue);
    e.j["kind"] = kind_;
    e.j["cgroup_fs"] = context.cgroupFs();
    e.j["args"] = Json::Value(Json::objectValue);
    for (auto& kv : args) {
      e.j["args"][kv.first] = kv.second;
    }
    auto it = args.find("id");
    if (it != args.end()) {
      id_ = it->second;
    }
    it = args.find("cgroup");
    if (it != args.end()) {
      cgroup_arg_ = it->second;
    }
    if (int us = scripts.init_sleep_us.load()) std::this_thread::sleep_for(std::chrono::microseconds(us));
    it = args.find("fail_init");
    int rc = 0;
    if (it != args.end()) {
      rc = 1;
    }
    e.s2 = id_;
    e.ret = rc;
    g.log(e);
    return rc;
  }
  void prerun(Oomd::OomdContext& /*ctx*/) override {
    Ev e;
    e.k = "plugin";
    e.s = "prerun";
    e.s2 = id_;
    e.a = serial_;
    e.j["kind"] = kind_;
    if (!cgroup_arg_.empty()) e.j["cgarg"] = cgroup_arg_;
    g.log(e);
  }

 protected:
  std::string kind_;
  int serial_;
  std::string id_;
  std::string cgroup_arg_;
};

class VpDetector : public ScriptedBase {
 public:
  VpDetector() : ScriptedBase("detector") {}
  static VpDetector* create() {
    return new VpDetector();
  }
  PluginRet run(Oomd::OomdContext& ctx) override {
    std::string rcg;
    if (auto c = ctx.getRulesetCgroup()) {
      rcg = c->relativePath();
    }
    Json::Value s = lookup("detectors", id_, rcg);
    PluginRet r = toRet(s.isString() ? s.asString() : "", PluginRet::STOP);
    Ev e;
    e.k = "plugin";
    e.s = "run";
    e.s2 = id_;
    e.a = serial_;
    e.j["kind"] = kind_;
    e.j["ret"] = retName(r);
    e.j["rcg"] = ctx.getRulesetCgroup() ? Json::Value(rcg) : Json::Value();
    g.log(e);
    return r;
  }
};

class VpAction : public ScriptedBase {
 public:
  VpAction() : ScriptedBase("action") {}
  static VpAction* create() {
    return new VpAction();
  }
  PluginRet run(Oomd::OomdContext& ctx) override {
    std::string rcg;
    if (auto c = ctx.getRulesetCgroup()) {
      rcg = c->relativePath();
    }
    // actions of a ruleset-cgroup instance are keyed by their cgroup argument
    std::string key = rcg.empty() ? cgroup_arg_ : rcg;
    Json::Value s = lookup("actions", id_, key);
    std::string rs = "C";
    int pause = -1;
    if (s.isString()) {
      rs = s.asString();
    } else if (s.isObject()) {
      rs = s.get("r", "C").asString();
      pause = s.get("pause", -1).asInt();
    }
    PluginRet r = toRet(rs, PluginRet::CONTINUE);
    Ev e;
    e.k = "plugin";
    e.s = "run";
    e.s2 = id_;
    e.a = serial_;
    e.j["kind"] = kind_;
    // an action that takes (virtual) time before it answers
    if (s.isObject() && s.get("sleep_ms", 0).asInt64() > 0) std::this_thread::sleep_for(std::chrono::milliseconds(s.get("sleep_ms", 0).asInt64()));
    e.j["ret"] = retName(r);
    e.j["actx"] = actxJson(ctx.getActionContext());
    e.j["rcg"] = ctx.getRulesetCgroup() ? Json::Value(rcg) : Json::Value();
    if (!cgroup_arg_.empty()) e.j["cgarg"] = cgroup_arg_;
    auto inv = ctx.getInvokingRuleset();
    e.j["invoking"] = inv.has_value();
    if (r == PluginRet::STOP && pause >= 0) {
      e.j["pause"] = pause;
      if (inv) {
        (*inv)->pause_actions(std::chrono::seconds(pause));
      }
    }
    g.log(e);
    return r;
  }
};

class VpProbe : public ScriptedBase {
 public:
  VpProbe() : ScriptedBase("probe") {}
  static VpProbe* create() {
    return new VpProbe();
  }
  PluginRet run(Oomd::OomdContext& ctx) override {
    if (scripts.probe) {
      scripts.probe(ctx, id_);
    }
    return PluginRet::STOP;
  }
};

class VpInvocation : public Oomd::Engine::PrekillHookInvocation {
 public:
  VpInvocation(std::string id, int serial, int polls_needed)
      : id_(std::move(id)), serial_(serial), need_(polls_needed) {}
  ~VpInvocation() override {
    Ev e;
    e.k = "hook";
    e.s = "destroy";
    e.s2 = id_;
    e.a = serial_;
    g.log(e);
  }
  bool didFinish() override {
    bool fin = need_ >= 0 && polls_ >= need_;
    polls_++;
    Ev e;
    e.k = "hook";
    e.s = "poll";
    e.s2 = id_;
    e.a = serial_;
    e.ret = fin;
    g.log(e);
    return fin;
  }

 private:
  std::string id_;
  int serial_;
  int need_;
  int polls_{0};
};

class VpHook : public Oomd::Engine::PrekillHook {
 public:
  static VpHook* create() {
    return new VpHook();
  }
  int init(
      const Oomd::Engine::PluginArgs& args,
      const Oomd::PluginConstructionContext& context) override {
    argParser_.addArgument("id", id_);
    return PrekillHook::init(args, context);
  }
  std::unique_ptr<Oomd::Engine::PrekillHookInvocation> fire(
      const Oomd::CgroupContext& cgroup_ctx,
      const Oomd::ActionContext& actx) override {
    int serial = scripts.next_serial++;
    int need = 0;
    const Json::Value& h = scripts.j["hooks"][id_];
    const Json::Value& polls = h["polls"];
    if (polls.isArray() && polls.size() > 0) {
      int idx = fires_ < (int)polls.size() ? fires_ : (int)polls.size() - 1;
      need = polls[idx].asInt();
    } else if (polls.isInt()) {
      need = polls.asInt();
    }
    fires_++;
    Ev e;
    e.k = "hook";
    e.s = "fire";
    e.s2 = id_;
    e.a = serial;
    e.p = cgroup_ctx.cgroup().relativePath();
    e.b = cgroup_ctx.id().value_or(0);
    e.j["actx"] = actxJson(actx);
    e.j["need"] = need;
    g.log(e);
    return std::make_unique<VpInvocation>(id_, serial, need);
  }

 private:
  std::string id_;
  int fires_{0};
};

// vp_typed: declares one argument of every type PluginArgParser supports,
// through the real parser, and logs what arrived (C12: 64-bit and fractional
// values must arrive unchanged).
class VpTyped : public Oomd::Engine::BasePlugin {
 public:
  static VpTyped* create() {
    return new VpTyped();
  }
  int init(
      const Oomd::Engine::PluginArgs& args,
      const Oomd::PluginConstructionContext& /*context*/) override {
    argParser_.addArgument("i", i_);
    argParser_.addArgument("l", l_);
    argParser_.addArgument("d", d_);
    argParser_.addArgument("f", f_);
    argParser_.addArgument("ms", ms_);
    argParser_.addArgument("b", b_);
    argParser_.addArgument("s", s_);
    argParser_.addArgument("r", r_);
    argParser_.addArgumentCustom("u", u_, Oomd::PluginArgParser::parseUnsignedInt);
    bool ok = (bool)argParser_.parse(args);
    Ev e;
    e.k = "plugin";
    e.s = "typed_init";
    e.ret = ok ? 0 : 1;
    e.j["i"] = i_;
    e.j["l"] = (Json::Int64)l_;
    e.j["d"] = d_;
    e.j["f"] = (double)f_;
    e.j["ms"] = (Json::Int64)ms_.count();
    e.j["b"] = b_;
    e.j["s"] = s_;
    e.j["r"] = r_ == Oomd::ResourceType::IO ? "io" : "memory";
    e.j["u"] = u_;
    g.log(e);
    return ok ? 0 : 1;
  }
  PluginRet run(Oomd::OomdContext& /*ctx*/) override {
    return PluginRet::CONTINUE;
  }

 private:
  int i_{0};
  int64_t l_{0};
  double d_{0};
  float f_{0};
  std::chrono::milliseconds ms_{0};
  bool b_{false};
  std::string s_;
  Oomd::ResourceType r_{Oomd::ResourceType::MEMORY};
  int u_{0};
};

REGISTER_PLUGIN(vp_typed, VpTyped::create);
REGISTER_PLUGIN(vp_detector, VpDetector::create);
REGISTER_PLUGIN(vp_action, VpAction::create);
REGISTER_PLUGIN(vp_probe, VpProbe::create);
REGISTER_PREKILL_HOOK(vp_hook, VpHook::create);

} // namespace
} // namespace vp
