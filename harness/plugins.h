// Scripted plugins registered in the real oomd plugin registries
// (DESIGN.md 3.4): vp_detector, vp_action, vp_probe, vp_hook.
#pragma once
#include <json/json.h>
#include <atomic>
#include <functional>
#include <string>

namespace Oomd {
class OomdContext;
}

namespace vp {

struct Scripts {
  // "detectors": { id -> "C"|"S"|"A" | [per tick...] }
  // "actions":   { id -> {"r":..,"pause":n} | "C"|"S"|"A" | [per tick ...] }
  // "hooks":     { id -> {"polls":[k per fire]} }   k<0: never finishes
  Json::Value j;
  std::atomic<int> next_serial{1};
  // real time every scripted plugin's init() takes (widens the compile window of drop-ins, C14)
  std::atomic<int> init_sleep_us{0};
  // probe callback (C15): invoked from vp_probe::run with the real context
  std::function<void(Oomd::OomdContext&, const std::string& id)> probe;
  void reset(const Json::Value& scripts) {
    j = scripts;
    next_serial = 1;
    init_sleep_us = 0;
    probe = nullptr;
  }
};
extern Scripts scripts;

} // namespace vp
