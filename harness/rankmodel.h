// RankModel: reference ranking of the five kill plugins (docs/core_plugins.md,
// property C09) with explicit tolerances; produces, for a set of sibling
// candidates, the set of acceptable first choices. Used by C09 and C03.
#pragma once
#include <cmath>
#include <map>
#include <set>
#include <string>
#include <vector>

#include "statmodel.h"

namespace vpr {

using vp::Cg;
using vp::World;

// per-cgroup temporal state the plugins accumulate (keyed by path+generation)
struct Temporal {
  bool have_avg{false};
  long double avg{0}; // moving average usage after this tick's update
  bool have_prev_io{false};
  long double prev_io{0}, cur_io{0};
  bool have_prev_pgscan{false};
  int64_t prev_pgscan{0};
};

struct PluginSpec {
  std::string name;
  // kill_by_memory_size_or_growth
  int size_threshold{50};
  int growing_size_percentile{80};
  long double min_growth_ratio{1.25L};
  int64_t ratio_num{0}, ratio_den{0}; // the configured ratio as an exact fraction, when the case knows it
  // kill_by_swap_usage
  int64_t swap_threshold{1}; // bytes, exact
  bool biased{false};
  long double swap_ratio{0}; // SwapTotal / MemTotal at init
  // kill_by_pressure
  std::string resource{"memory"};
};

struct Key {
  bool eligible{true};
  bool uncertain{false}; // an eligibility / phase comparison is within tolerance
  int pref{0};
  std::vector<long double> k;
  std::vector<long double> tol;
};

inline int prefOf(const Cg& c) {
  if (c.xattrs.count("trusted.oomd_prefer") || c.xattrs.count("user.oomd_prefer")) return 1;
  if (c.xattrs.count("trusted.oomd_avoid") || c.xattrs.count("user.oomd_avoid")) return -1;
  return 0;
}

struct RankInput {
  const World* w{nullptr};
  PluginSpec spec;
  std::map<std::string, Temporal> temporal; // by path, state valid for this tick
  int64_t rootCurrent{0};
};

inline long double protOf(const RankInput& in, const std::string& path) {
  return std::floor(vps::protection(*in.w, path, in.rootCurrent));
}
// is the model's protection value exact (no fractional scaling involved)?
inline bool protExact(const RankInput& in, const std::string& path) {
  auto comps = vpm::splitPath(path);
  return comps.size() <= 1 || protOf(in, path) == 0;
}

inline std::map<std::string, Key> keysOf(const RankInput& in, const std::vector<std::string>& peers) {
  std::map<std::string, Key> out;
  const World& w = *in.w;
  const PluginSpec& s = in.spec;
  if (s.name == "kill_by_memory_size_or_growth") {
    long double sum = 0;
    std::vector<long double> effs;
    bool anyInexact = false;
    for (auto& p : peers) {
      const Cg* c = w.find(p);
      sum += (long double)c->mem_current;
      effs.push_back((long double)c->mem_current - protOf(in, p));
      if (!protExact(in, p)) anyInexact = true;
    }
    long double thr = sum * ((long double)s.size_threshold / 100.0L);
    long double thrTol = 2.0L + std::fabs(thr) * std::ldexp(1.0L, -48);
    long double T = 0;
    if (!peers.empty() && s.growing_size_percentile > 0) {
      size_t nth = (size_t)std::ceil((long double)peers.size() * (100 - s.growing_size_percentile) / 100.0L) - 1;
      std::vector<long double> sorted = effs;
      std::sort(sorted.begin(), sorted.end(), std::greater<long double>());
      T = sorted[std::min(nth, sorted.size() - 1)];
    }
    long double effTol = anyInexact ? 4.0L : 0.0L;
    for (size_t i = 0; i < peers.size(); i++) {
      const Cg* c = w.find(peers[i]);
      Key k;
      k.pref = prefOf(*c);
      long double usage = (long double)c->mem_current;
      long double eff = effs[i];
      bool sizeEl = usage >= thr;
      // within rounding distance of the threshold the phase is not decided by
      // the documentation; an exact hit on an exactly representable integral
      // threshold is (">= size_threshold %" holds)
      bool exactHit = usage == thr && thr == std::floor(thr) && sum < 4.0e15L;
      if (std::fabs(usage - thr) <= thrTol && !exactHit) k.uncertain = true;
      long double ratio = 0;
      auto t = in.temporal.find(peers[i]);
      long double avg = (t != in.temporal.end() && t->second.have_avg) ? std::floor(t->second.avg) : 0;
      if (avg > 0) ratio = usage / avg;
      bool growthEl = ratio >= s.min_growth_ratio && eff >= T;
      // usage / average equal to the configured fraction, exactly: ">= min_growth_ratio" holds
      bool exactRatio = s.ratio_den > 0 && avg > 0 && usage * (long double)s.ratio_den == avg * (long double)s.ratio_num;
      if (exactRatio) growthEl = eff >= T;
      if (std::fabs(ratio - s.min_growth_ratio) <= 2e-6L * std::max(1.0L, ratio) && !exactRatio) k.uncertain = true;
      if (eff != T && std::fabs(eff - T) <= effTol) k.uncertain = true;
      if (avg > 0 && avg < 4096) k.uncertain = true; // truncation of tiny averages
      k.k = {sizeEl ? eff : 0.0L, growthEl ? ratio : 0.0L, eff};
      k.tol = {effTol, 2e-6L * std::max(1.0L, ratio), effTol};
      out[peers[i]] = k;
    }
  } else if (s.name == "kill_by_swap_usage") {
    for (auto& p : peers) {
      const Cg* c = w.find(p);
      Key k;
      k.pref = prefOf(*c);
      k.eligible = c->swap_current > s.swap_threshold;
      if (s.biased) {
        long double prot = protOf(in, p);
        long double low = std::floor(s.swap_ratio * prot);
        long double ex = (long double)c->swap_current - low;
        if (ex < 0) ex = 0;
        k.k = {ex};
        k.tol = {4.0L + low * 1e-6L};
      } else {
        k.k = {(long double)c->swap_current};
        k.tol = {0.0L};
      }
      out[p] = k;
    }
  } else if (s.name == "kill_by_pressure") {
    for (auto& p : peers) {
      const Cg* c = w.find(p);
      Key k;
      k.pref = prefOf(*c);
      const vp::Psi& psi = s.resource == "io" ? c->io_psi : c->mem_psi;
      k.k = {((long double)psi.full[0] + (long double)psi.full[1]) / 200.0L};
      k.tol = {1.0L}; // whole percentage points (DESIGN.md §C09)
      out[p] = k;
    }
  } else if (s.name == "kill_by_io_cost") {
    for (auto& p : peers) {
      const Cg* c = w.find(p);
      Key k;
      k.pref = prefOf(*c);
      auto t = in.temporal.find(p);
      long double rate = 0, mag = 1;
      if (t != in.temporal.end()) {
        mag = std::max(1.0L, std::fabs(t->second.cur_io));
        if (t->second.have_prev_io) rate = t->second.cur_io - t->second.prev_io;
      }
      k.k = {rate};
      k.tol = {mag * 1e-9L};
      out[p] = k;
    }
  } else if (s.name == "kill_by_pg_scan") {
    for (auto& p : peers) {
      const Cg* c = w.find(p);
      Key k;
      k.pref = prefOf(*c);
      auto t = in.temporal.find(p);
      int64_t cur = c->statv("pgscan", 0);
      if (t != in.temporal.end() && t->second.have_prev_pgscan) {
        int64_t rate = cur - t->second.prev_pgscan;
        k.eligible = rate > 0;
        k.k = {(long double)rate};
      } else {
        k.eligible = false;
        k.k = {0.0L};
      }
      k.tol = {0.0L};
      out[p] = k;
    }
  }
  return out;
}

// a is certainly ranked before b
inline bool clearlyBefore(const Key& a, const Key& b) {
  if (a.pref != b.pref) return a.pref > b.pref;
  for (size_t i = 0; i < a.k.size(); i++) {
    long double tol = std::max(a.tol[i], b.tol[i]);
    // identical inputs give identical values: decided by the next component
    if (a.k[i] == b.k[i]) continue;
    // within rounding distance the order at this component is open, and with
    // it the whole lexicographic order
    if (std::fabs(a.k[i] - b.k[i]) <= tol) return false;
    return a.k[i] > b.k[i];
  }
  return false;
}

// among `cands` (already restricted to plugin-eligible ones), who may be first
inline std::set<std::string> acceptableFirst(const std::map<std::string, Key>& keys, const std::vector<std::string>& cands) {
  std::set<std::string> acc;
  for (auto& s : cands) {
    bool beaten = false;
    for (auto& t : cands)
      if (t != s && clearlyBefore(keys.at(t), keys.at(s))) beaten = true;
    if (!beaten) acc.insert(s);
  }
  return acc;
}

} // namespace vpr
