// See shim.h. Everything here must be safe to call before main() and from any
// thread: the fast path only reads the POD flag vp_shim_on.
#include "shim.h"

#include <dirent.h>
#include <dlfcn.h>
#include <errno.h>
#include <fcntl.h>
#include <signal.h>
#include <stdarg.h>
#include <stdio.h>
#include <string.h>
#include <sys/stat.h>
#include <sys/syscall.h>
#include <sys/xattr.h>
#include <unistd.h>

extern "C" {
volatile int vp_shim_on = 0;
}

namespace vp {

Shim g;

struct FdInfo {
  std::string path;
  dev_t dev{0};
  ino_t ino{0};
  bool writable{false};
  ino_t dir_ino{0}; // inode of the containing directory at open time
};
static std::map<int, FdInfo>* fdmap() {
  static auto* m = new std::map<int, FdInfo>();
  return m;
}

void Shim::reset() {
  std::lock_guard<std::recursive_mutex> l(mu);
  trace.clear();
  tick = -1;
  access_count = 0;
  velapsed_ns = 0;
  dt_unknown = false;
  log_access = false;
  on_sigtimedwait = nullptr;
  on_kill = nullptr;
  on_pidfd_open = nullptr;
  on_mrelease = nullptr;
  on_write = nullptr;
  on_access = nullptr;
  on_readdir = nullptr;
  kill_cost_ms = 0;
  virt_ino = false;
  virt_of_real.clear();
  virt_path.clear();
  on_sdbus = nullptr;
  fdmap()->clear();
}

Json::Value Ev::toJson() const {
  Json::Value v(Json::objectValue);
  v["k"] = k;
  v["tick"] = tick;
  v["t"] = (Json::Int64)t_ms;
  if (!p.empty()) v["p"] = p;
  if (!s.empty()) v["s"] = s;
  if (!s2.empty()) v["s2"] = s2;
  if (a) v["a"] = (Json::Int64)a;
  if (b) v["b"] = (Json::Int64)b;
  if (ret) v["ret"] = (Json::Int64)ret;
  if (err) v["err"] = err;
  if (!j.isNull()) v["j"] = j;
  return v;
}

void Shim::log(Ev e) {
  std::lock_guard<std::recursive_mutex> l(mu);
  e.tick = tick;
  e.t_ms = now_ms();
  trace.push_back(std::move(e));
}

Bypass::Bypass() {
  std::lock_guard<std::recursive_mutex> l(g.mu);
  g.bypass++;
}
Bypass::~Bypass() {
  std::lock_guard<std::recursive_mutex> l(g.mu);
  g.bypass--;
}

static inline bool on() {
  return vp_shim_on && g.active && g.bypass == 0;
}

static bool starts(const char* s, const char* pre) {
  return strncmp(s, pre, strlen(pre)) == 0;
}

std::string redirect(const std::string& path) {
  const char* p = path.c_str();
  if (g.scratch.empty()) {
    return path;
  }
  if (starts(p, "/proc/self") || starts(p, "/proc/thread-self")) {
    return path;
  }
  if (starts(p, "/proc/") || starts(p, "/sys/") || path == "/dev/kmsg") {
    return g.scratch + path;
  }
  return path;
}

std::string fd_path(int fd) {
  std::lock_guard<std::recursive_mutex> l(g.mu);
  auto it = fdmap()->find(fd);
  if (it != fdmap()->end()) {
    return it->second.path;
  }
  char buf[64], out[4096];
  snprintf(buf, sizeof buf, "/proc/self/fd/%d", fd);
  ssize_t n = readlink(buf, out, sizeof(out) - 1);
  if (n <= 0) {
    return "";
  }
  out[n] = 0;
  std::string s(out);
  const std::string del = " (deleted)";
  if (s.size() > del.size() && s.compare(s.size() - del.size(), del.size(), del) == 0) {
    s.erase(s.size() - del.size());
  }
  return s;
}

static std::string resolve_at(int dirfd, const char* path) {
  if (path[0] == '/') {
    return path;
  }
  if (dirfd == AT_FDCWD) {
    return path;
  }
  std::string base = fd_path(dirfd);
  if (path[0] == 0) {
    return base;
  }
  return base + "/" + path;
}

static void track(int fd, const std::string& path, int flags, int dirfd) {
  struct stat st;
  FdInfo fi;
  fi.path = path;
  if (dirfd != AT_FDCWD && fstat(dirfd, &st) == 0) {
    fi.dir_ino = g.virtOf(st.st_ino);
  } else {
    auto pos = path.rfind('/');
    if (pos != std::string::npos && pos > 0 &&
        stat(path.substr(0, pos).c_str(), &st) == 0) {
      fi.dir_ino = g.virtOf(st.st_ino);
    }
  }
  if (fstat(fd, &st) == 0) {
    fi.dev = st.st_dev;
    fi.ino = st.st_ino;
  }
  fi.writable = (flags & O_ACCMODE) != O_RDONLY;
  std::lock_guard<std::recursive_mutex> l(g.mu);
  (*fdmap())[fd] = fi;
}

static AccessDecision access_hook(const std::string& path, const char* kind) {
  AccessDecision d;
  std::function<AccessDecision(const std::string&, const char*)> cb;
  {
    std::lock_guard<std::recursive_mutex> l(g.mu);
    g.access_count++;
    cb = g.on_access;
    if (g.log_access) {
      Ev e;
      e.k = "access";
      e.p = path;
      e.s = kind;
      e.a = g.access_count;
      g.log(e);
    }
  }
  if (cb) {
    Bypass b;
    d = cb(path, kind);
  }
  return d;
}

} // namespace vp

using namespace vp;

#define REAL(name) \
  static auto real = reinterpret_cast<decltype(&name)>(dlsym(RTLD_NEXT, #name))

extern "C" {

// ---------------------------------------------------------------- clock ---
int clock_gettime(clockid_t clk, struct timespec* ts) {
  REAL(clock_gettime);
  if (vp_shim_on && g.active && g.vclock && clk == CLOCK_MONOTONIC) {
    int64_t t = g.base_ns + g.velapsed_ns;
    ts->tv_sec = t / 1000000000LL;
    ts->tv_nsec = t % 1000000000LL;
    return 0;
  }
  return real(clk, ts);
}

int nanosleep(const struct timespec* req, struct timespec* rem) {
  REAL(nanosleep);
  if (on() && g.vclock) {
    std::lock_guard<std::recursive_mutex> l(g.mu);
    g.velapsed_ns += req->tv_sec * 1000000000LL + req->tv_nsec;
    Ev e;
    e.k = "sleep";
    e.a = req->tv_sec * 1000LL + req->tv_nsec / 1000000;
    g.log(e);
    if (rem) {
      rem->tv_sec = 0;
      rem->tv_nsec = 0;
    }
    return 0;
  }
  return real(req, rem);
}

int clock_nanosleep(
    clockid_t clk,
    int flags,
    const struct timespec* req,
    struct timespec* rem) {
  REAL(clock_nanosleep);
  if (on() && g.vclock && !(flags & TIMER_ABSTIME)) {
    return nanosleep(req, rem);
  }
  return real(clk, flags, req, rem);
}

int sigtimedwait(
    const sigset_t* set,
    siginfo_t* info,
    const struct timespec* timeout) {
  REAL(sigtimedwait);
  if (on() && g.on_sigtimedwait) {
    int rc;
    {
      Bypass b;
      rc = g.on_sigtimedwait();
    }
    if (rc == 0) {
      errno = EAGAIN;
      return -1;
    }
    return rc;
  }
  return real(set, info, timeout);
}

// ----------------------------------------------------------------- kill ---
int kill(pid_t pid, int sig) {
  REAL(kill);
  if (on()) {
    int err = ESRCH;
    if (g.on_kill) {
      Bypass b;
      err = g.on_kill(pid, sig);
    }
    Ev e;
    e.k = "kill";
    e.a = pid;
    e.b = sig;
    e.ret = err ? -1 : 0;
    e.err = err;
    g.log(e);
    if (g.kill_cost_ms > 0) g.advance_ms(g.kill_cost_ms);
    if (err) {
      errno = err;
      return -1;
    }
    return 0;
  }
  return real(pid, sig);
}

#ifndef SYS_pidfd_open
#define SYS_pidfd_open 434
#endif
#define VP_NR_process_mrelease 448

__attribute__((no_sanitize("address", "undefined", "thread"))) long syscall(
    long nr,
    ...) {
  static auto real =
      reinterpret_cast<long (*)(long, ...)>(dlsym(RTLD_NEXT, "syscall"));
  va_list ap;
  va_start(ap, nr);
  long a0 = va_arg(ap, long);
  long a1 = va_arg(ap, long);
  long a2 = va_arg(ap, long);
  long a3 = va_arg(ap, long);
  long a4 = va_arg(ap, long);
  long a5 = va_arg(ap, long);
  va_end(ap);
  if (on() && (nr == SYS_pidfd_open || nr == VP_NR_process_mrelease)) {
    int r = -ESRCH;
    Ev e;
    if (nr == SYS_pidfd_open) {
      e.k = "pidfd_open";
      e.a = (pid_t)a0;
      if (g.on_pidfd_open) {
        Bypass b;
        r = g.on_pidfd_open((pid_t)a0);
      }
    } else {
      e.k = "mrelease";
      e.a = (int)a0;
      if (g.on_mrelease) {
        Bypass b;
        r = g.on_mrelease((int)a0);
      }
    }
    e.ret = r;
    e.err = r < 0 ? -r : 0;
    g.log(e);
    if (r < 0) {
      errno = -r;
      return -1;
    }
    return r;
  }
  return real(nr, a0, a1, a2, a3, a4, a5);
}

// ---------------------------------------------------------------- xattr ---
int setxattr(
    const char* path,
    const char* name,
    const void* value,
    size_t size,
    int flags) {
  REAL(setxattr);
  if (on()) {
    access_hook(path, "setxattr");
    int r = real(path, name, value, size, flags);
    int err = errno;
    Ev e;
    e.k = "setxattr";
    e.p = path;
    e.s = name;
    e.s2 = std::string((const char*)value, size);
    e.ret = r;
    e.err = r ? err : 0;
    // identity of the directory that actually received the attribute
    struct stat st;
    if (stat(path, &st) == 0) {
      e.a = g.virtOf(st.st_ino);
    }
    g.log(e);
    errno = err;
    return r;
  }
  return real(path, name, value, size, flags);
}

ssize_t getxattr(const char* path, const char* name, void* value, size_t size) {
  REAL(getxattr);
  if (on()) {
    access_hook(path, "getxattr");
  }
  return real(path, name, value, size);
}

ssize_t fgetxattr(int fd, const char* name, void* value, size_t size) {
  REAL(fgetxattr);
  if (on()) {
    auto d = access_hook(fd_path(fd) + "#" + name, "fgetxattr");
    if (d.fail_errno) {
      errno = d.fail_errno;
      return -1;
    }
  }
  return real(fd, name, value, size);
}

// ----------------------------------------------------------------- open ---
static int do_open(int dirfd, const char* path, int flags, mode_t mode) {
  static auto real = reinterpret_cast<int (*)(int, const char*, int, ...)>(
      dlsym(RTLD_NEXT, "openat"));
  if (!on()) {
    return real(dirfd, path, flags, mode);
  }
  std::string full = redirect(resolve_at(dirfd, path));
  auto d = access_hook(full, (flags & O_ACCMODE) == O_RDONLY ? "open" : "openw");
  if (d.fail_errno) {
    errno = d.fail_errno;
    return -1;
  }
  int fd;
  if (!d.substitute.empty()) {
    fd = real(AT_FDCWD, d.substitute.c_str(), flags & ~O_DIRECTORY, mode);
  } else if (path[0] == '/') {
    fd = real(AT_FDCWD, full.c_str(), flags, mode);
  } else {
    // keep real openat semantics on the held dirfd (removed cgroups!)
    fd = real(dirfd, path, flags, mode);
  }
  if (fd >= 0) {
    track(fd, full, flags, path[0] == '/' ? AT_FDCWD : dirfd);
  }
  return fd;
}

int open(const char* path, int flags, ...) {
  mode_t mode = 0;
  if (flags & (O_CREAT | O_TMPFILE)) {
    va_list ap;
    va_start(ap, flags);
    mode = va_arg(ap, mode_t);
    va_end(ap);
  }
  return do_open(AT_FDCWD, path, flags, mode);
}
int open64(const char* path, int flags, ...) {
  mode_t mode = 0;
  if (flags & (O_CREAT | O_TMPFILE)) {
    va_list ap;
    va_start(ap, flags);
    mode = va_arg(ap, mode_t);
    va_end(ap);
  }
  return do_open(AT_FDCWD, path, flags, mode);
}
int openat(int dirfd, const char* path, int flags, ...) {
  mode_t mode = 0;
  if (flags & (O_CREAT | O_TMPFILE)) {
    va_list ap;
    va_start(ap, flags);
    mode = va_arg(ap, mode_t);
    va_end(ap);
  }
  return do_open(dirfd, path, flags, mode);
}
int openat64(int dirfd, const char* path, int flags, ...) {
  mode_t mode = 0;
  if (flags & (O_CREAT | O_TMPFILE)) {
    va_list ap;
    va_start(ap, flags);
    mode = va_arg(ap, mode_t);
    va_end(ap);
  }
  return do_open(dirfd, path, flags, mode);
}

static FILE* do_fopen(const char* path, const char* mode, bool is64) {
  static auto real = reinterpret_cast<FILE* (*)(const char*, const char*)>(
      dlsym(RTLD_NEXT, "fopen"));
  static auto real64 = reinterpret_cast<FILE* (*)(const char*, const char*)>(
      dlsym(RTLD_NEXT, "fopen64"));
  auto r = (is64 && real64) ? real64 : real;
  if (!on()) {
    return r(path, mode);
  }
  std::string full = redirect(path);
  auto d = access_hook(full, "fopen");
  if (d.fail_errno) {
    errno = d.fail_errno;
    return nullptr;
  }
  if (!d.substitute.empty()) {
    return r(d.substitute.c_str(), mode);
  }
  return r(full.c_str(), mode);
}
FILE* fopen(const char* path, const char* mode) {
  return do_fopen(path, mode, false);
}
FILE* fopen64(const char* path, const char* mode) {
  return do_fopen(path, mode, true);
}

DIR* opendir(const char* path) {
  REAL(opendir);
  if (!on()) {
    return real(path);
  }
  std::string full = redirect(path);
  auto d = access_hook(full, "opendir");
  if (d.fail_errno) {
    errno = d.fail_errno;
    return nullptr;
  }
  return real(full.c_str());
}

int faccessat(int dirfd, const char* path, int mode, int flags) {
  REAL(faccessat);
  if (on()) {
    auto d = access_hook(redirect(resolve_at(dirfd, path)), "faccessat");
    if (d.fail_errno) {
      errno = d.fail_errno;
      return -1;
    }
  }
  return real(dirfd, path, mode, flags);
}

static void readdir_hook(DIR* d, const char* name) {
  std::function<void(const std::string&, const std::string&)> cb;
  std::string dir;
  {
    std::lock_guard<std::recursive_mutex> l(g.mu);
    cb = g.on_readdir;
    if (!cb) return;
    auto it = fdmap()->find(dirfd(d));
    if (it != fdmap()->end()) dir = it->second.path;
  }
  Bypass b;
  if (dir.empty()) {
    // a dup()ed descriptor: ask the kernel what it refers to
    char buf[4096];
    std::string link = "/proc/self/fd/" + std::to_string(dirfd(d));
    ssize_t n = ::readlink(link.c_str(), buf, sizeof buf - 1);
    if (n <= 0) return;
    dir.assign(buf, (size_t)n);
  }
  cb(dir, name);
}
struct dirent* readdir(DIR* d) {
  REAL(readdir);
  struct dirent* e = real(d);
  if (e && on() && g.dt_unknown) {
    e->d_type = DT_UNKNOWN;
  }
  if (e && on()) readdir_hook(d, e->d_name);
  return e;
}
struct dirent64* readdir64(DIR* d) {
  REAL(readdir64);
  struct dirent64* e = real(d);
  if (e && on() && g.dt_unknown) {
    e->d_type = DT_UNKNOWN;
  }
  if (e && on()) readdir_hook(d, e->d_name);
  return e;
}

int close(int fd) {
  REAL(close);
  if (vp_shim_on) {
    std::lock_guard<std::recursive_mutex> l(g.mu);
    fdmap()->erase(fd);
  }
  return real(fd);
}

ssize_t write(int fd, const void* buf, size_t n) {
  REAL(write);
  if (!on()) {
    return real(fd, buf, n);
  }
  if (fd == g.kmsg_fd && fd >= 0) {
    Ev e;
    e.k = "kmsg";
    e.s = std::string((const char*)buf, n);
    g.log(e);
    return real(fd, buf, n);
  }
  FdInfo fi;
  bool tracked = false;
  {
    std::lock_guard<std::recursive_mutex> l(g.mu);
    auto it = fdmap()->find(fd);
    if (it != fdmap()->end() && it->second.writable) {
      fi = it->second;
      tracked = true;
    }
  }
  if (tracked) {
    struct stat st;
    if (fstat(fd, &st) != 0 || st.st_dev != fi.dev || st.st_ino != fi.ino) {
      tracked = false; // fd number reused by something we did not see
    }
  }
  if (!tracked) {
    return real(fd, buf, n);
  }
  std::string data((const char*)buf, n);
  bool control = false;
  if (!g.scratch.empty() && fi.path.compare(0, g.scratch.size(), g.scratch) == 0) {
    control = true;
  }
  if (!control) {
    return real(fd, buf, n);
  }
  long r = (long)n;
  g.aux = -1;
  if (g.on_write) {
    Bypass b;
    r = g.on_write(fi.path, data);
  }
  Ev e;
  e.k = "write";
  e.p = fi.path;
  e.s = data;
  e.a = fi.dir_ino;
  e.b = g.aux;
  e.ret = r;
  e.err = r < 0 ? (int)-r : 0;
  g.log(e);
  if (r < 0) {
    errno = (int)-r;
    return -1;
  }
  return r;
}

} // extern "C"

// ----------------------------------------------------------------- fstat ---
// only the inode number is touched, and only when the scenario asks for kernfs-style identities
extern "C" {
int fstat(int fd, struct stat* st) {
  static auto real = reinterpret_cast<int (*)(int, struct stat*)>(dlsym(RTLD_NEXT, "fstat"));
  int r = real(fd, st);
  if (r == 0 && vp_shim_on && g.virt_ino) st->st_ino = g.virtOf(st->st_ino);
  return r;
}
int fstat64(int fd, struct stat64* st) {
  static auto real = reinterpret_cast<int (*)(int, struct stat64*)>(dlsym(RTLD_NEXT, "fstat64"));
  int r = real(fd, st);
  if (r == 0 && vp_shim_on && g.virt_ino) st->st_ino = g.virtOf(st->st_ino);
  return r;
}
}

// ---------------------------------------------------------------- sd-bus ---
// systemd_restart talks to the system bus through these four entry points; in
// the harness no bus is ever contacted (DESIGN.md 3.2).
#include <systemd/sd-bus.h>
extern "C" {
static int vp_fake_bus, vp_fake_msg;
int sd_bus_open_system(sd_bus** ret) {
  *ret = reinterpret_cast<sd_bus*>(&vp_fake_bus);
  vp::Ev e;
  e.k = "sdbus";
  e.s = "open_system";
  vp::g.log(e);
  return 0;
}
int sd_bus_call_method(
    sd_bus* /*bus*/,
    const char* /*destination*/,
    const char* /*path*/,
    const char* /*interface*/,
    const char* member,
    sd_bus_error* ret_error,
    sd_bus_message** reply,
    const char* types,
    ...) {
  std::string a0, a1;
  if (types && !strcmp(types, "ss")) {
    va_list ap;
    va_start(ap, types);
    const char* s0 = va_arg(ap, const char*);
    const char* s1 = va_arg(ap, const char*);
    va_end(ap);
    a0 = s0 ? s0 : "";
    a1 = s1 ? s1 : "";
  }
  int r = 0;
  if (vp::g.on_sdbus) {
    vp::Bypass b;
    r = vp::g.on_sdbus(member ? member : "", a0);
  }
  vp::Ev e;
  e.k = "sdbus";
  e.s = member ? member : "";
  e.s2 = a0;
  e.p = a1;
  e.ret = r;
  vp::g.log(e);
  if (r < 0) {
    if (ret_error) {
      ret_error->name = nullptr;
      ret_error->message = "vp: injected failure";
      ret_error->_need_free = 0;
    }
    return r;
  }
  *reply = reinterpret_cast<sd_bus_message*>(&vp_fake_msg);
  return 1;
}
int sd_bus_message_read(sd_bus_message* /*m*/, const char* types, ...) {
  if (types && !strcmp(types, "o")) {
    va_list ap;
    va_start(ap, types);
    const char** out = va_arg(ap, const char**);
    va_end(ap);
    *out = "/org/freedesktop/systemd1/job/1";
  }
  return 1;
}
void sd_bus_error_free(sd_bus_error* /*e*/) {}
sd_bus_message* sd_bus_message_unref(sd_bus_message* /*m*/) {
  return nullptr;
}
void sd_bus_close(sd_bus* /*bus*/) {}
sd_bus* sd_bus_unref(sd_bus* /*bus*/) {
  return nullptr;
}
}
