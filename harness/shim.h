// libc-boundary shim: strong definitions in the harness executable that
// interpose kill/clock/sleep/sigtimedwait/syscall/xattr/open*/write/readdir for
// the real oomd objects linked into the harness (see DESIGN.md 3.2).
#pragma once
#include <json/json.h>
#include <atomic>
#include <sys/types.h>
#include <time.h>
#include <cstdint>
#include <functional>
#include <map>
#include <mutex>
#include <string>
#include <vector>

namespace vp {

struct Ev {
  std::string k; // kind: kill, setxattr, write, pidfd_open, mrelease, open, ...
  int tick{-1};
  int64_t t_ms{0}; // virtual time (ms since case start)
  std::string p; // path (real path inside scratch) or ""
  std::string s; // payload (xattr name, data written, ...)
  std::string s2;
  int64_t a{0};
  int64_t b{0};
  int64_t ret{0};
  int err{0};
  Json::Value j; // structured payload (plugin events)
  Json::Value toJson() const;
};

// decision of the access hook for one file access
struct AccessDecision {
  int fail_errno{0}; // !=0: fail the call with this errno
  std::string substitute; // !empty: open this path instead
};

struct Shim {
  // --- state ---------------------------------------------------------------
  bool active{false}; // false: everything passes straight through
  int bypass{0}; // >0: harness-internal code, pass through
  std::recursive_mutex mu;

  // redirection of /proc, /sys, /dev/kmsg into <scratch>
  std::string scratch; // e.g. /dev/shm/vp-123/c
  std::string cgroot; // <scratch>/cg  (the simulated cgroup2 mount)

  // virtual clock
  bool vclock{false};
  int64_t base_ns{0}; // real CLOCK_MONOTONIC at case start
  int64_t velapsed_ns{0};

  std::atomic<int> tick{-1};
  long access_count{0}; // file accesses (open/openat/fopen/opendir/faccessat/xattr)
  bool log_access{false};
  bool dt_unknown{false};
  int kmsg_fd{-1}; // writes to this fd are logged as 'kmsg' events

  std::vector<Ev> trace;

  // --- callbacks (set by the interpreter) ------------------------------------
  // returns 0 => EAGAIN (a tick), otherwise the signal number to deliver
  std::function<int()> on_sigtimedwait;
  // returns 0 on success or errno
  std::function<int(pid_t, int)> on_kill;
  // pidfd_open: returns fd>=0 or -errno ; mrelease: 0 or -errno
  std::function<int(pid_t)> on_pidfd_open;
  std::function<int(int)> on_mrelease;
  // write to a file below cgroot / redirected proc,sys opened for writing:
  // returns bytes "written" (>=0) or -errno.
  std::function<long(const std::string& path, const std::string& data)> on_write;
  // called for every directory entry handed to the code under test: (directory path, entry name)
  std::function<void(const std::string& dir, const std::string& name)> on_readdir;
  // kernfs-style directory identities: (generation << 32) | slot, the slot belonging to the path, so that a
  // cgroup re-created under its old path differs from its predecessor in the upper 32 bits only. Applied to
  // what fstat() shows the code under test and to what the harness reads back (Sim::inode).
  bool virt_ino{false};
  std::map<uint64_t, uint64_t> virt_of_real;
  std::map<std::string, std::pair<uint32_t, uint32_t>> virt_path; // path -> (slot, generation)
  uint64_t virtRegister(const std::string& path, uint64_t real) {
    std::lock_guard<std::recursive_mutex> l(mu);
    auto it = virt_path.find(path);
    if (it == virt_path.end()) it = virt_path.emplace(path, std::make_pair((uint32_t)virt_path.size() + 100, 0u)).first;
    it->second.second++;
    uint64_t v = ((uint64_t)it->second.second << 32) | it->second.first;
    virt_of_real[real] = v;
    return v;
  }
  uint64_t virtOf(uint64_t real) {
    if (!virt_ino) return real;
    std::lock_guard<std::recursive_mutex> l(mu);
    auto it = virt_of_real.find(real);
    return it == virt_of_real.end() ? real : it->second;
  }
  int64_t kill_cost_ms{0}; // virtual time every kill(2) takes (a loaded machine)
  long aux{-1}; // set by on_write: processes a cgroup.kill write found (-1 otherwise)
  // called before every file access with the (redirected) path and a kind tag
  std::function<AccessDecision(const std::string& path, const char* kind)>
      on_access;
  // sd-bus
  std::function<int(const std::string& method, const std::string& arg)> on_sdbus;

  void reset();
  int64_t now_ms() const {
    return velapsed_ns / 1000000;
  }
  void advance_ms(int64_t ms) {
    velapsed_ns += ms * 1000000;
  }
  void log(Ev e);
};

extern Shim g;

struct Bypass {
  Bypass();
  ~Bypass();
};

// map a path the way the shim does (for the harness' own bookkeeping)
std::string redirect(const std::string& path);
// best-effort path of an fd the shim saw being opened
std::string fd_path(int fd);

} // namespace vp
