#include "simworld.h"
#include "shim.h"

#include <dirent.h>
#include <fcntl.h>
#include <signal.h>
#include <string.h>
#include <sys/stat.h>
#include <sys/xattr.h>
#include <unistd.h>
#include <algorithm>
#include <cstdio>
#include <stdexcept>

namespace vp {

std::string renderInt(int64_t v) {
  return v == kMax ? std::string("max") : std::to_string(v);
}

static Json::Value jInt(int64_t v) {
  return Json::Value((Json::Int64)v);
}

// ------------------------------------------------------------------ Psi ---
static std::string pct(int hundredths) {
  char b[32];
  snprintf(b, sizeof b, "%d.%02d", hundredths / 100, hundredths % 100);
  return b;
}
std::string Psi::render() const {
  std::string s;
  if (legacy) {
    s = "aggr " + std::to_string(some_total) + "\n";
    s += "some " + pct(some[0]) + " " + pct(some[1]) + " " + pct(some[2]) + "\n";
    s += "full " + pct(full[0]) + " " + pct(full[1]) + " " + pct(full[2]) + "\n";
  } else {
    s = "some avg10=" + pct(some[0]) + " avg60=" + pct(some[1]) +
        " avg300=" + pct(some[2]) + " total=" + std::to_string(some_total) + "\n";
    s += "full avg10=" + pct(full[0]) + " avg60=" + pct(full[1]) +
        " avg300=" + pct(full[2]) + " total=" + std::to_string(full_total) + "\n";
  }
  return s;
}
Json::Value Psi::toJson() const {
  Json::Value v(Json::objectValue);
  for (int i = 0; i < 3; i++) {
    v["some"].append(some[i]);
    v["full"].append(full[i]);
  }
  v["st"] = (Json::UInt64)some_total;
  v["ft"] = (Json::UInt64)full_total;
  if (legacy) {
    v["legacy"] = true;
  }
  return v;
}
Psi Psi::fromJson(const Json::Value& v) {
  Psi p;
  for (int i = 0; i < 3; i++) {
    p.some[i] = v["some"].get(i, 0).asInt();
    p.full[i] = v["full"].get(i, 0).asInt();
  }
  p.some_total = v.get("st", 0).asUInt64();
  p.full_total = v.get("ft", 0).asUInt64();
  p.legacy = v.get("legacy", false).asBool();
  return p;
}

// ------------------------------------------------------------------- Cg ---
int64_t Cg::statv(const std::string& key, int64_t dflt) const {
  for (auto& kv : stat) {
    if (kv.first == key) {
      return kv.second;
    }
  }
  return dflt;
}

Json::Value Cg::toJson() const {
  Json::Value v(Json::objectValue);
  v["path"] = path;
  if (!pids.empty()) {
    for (int p : pids) {
      v["pids"].append(p);
    }
  }
  if (zero_lines) v["zero_lines"] = zero_lines;
  if (zombie) v["zombie"] = true;
  v["cur"] = jInt(mem_current);
  if (mem_min) v["min"] = jInt(mem_min);
  if (mem_low) v["low"] = jInt(mem_low);
  if (mem_high != kMax) v["high"] = jInt(mem_high);
  if (mem_max != kMax) v["max"] = jInt(mem_max);
  if (swap_current) v["swap"] = jInt(swap_current);
  if (swap_max != kMax) v["swapmax"] = jInt(swap_max);
  if (has_high_tmp) {
    v["high_tmp"] = jInt(high_tmp);
    v["high_tmp_us"] = jInt(high_tmp_us);
  }
  if (!has_reclaim) v["no_reclaim"] = true;
  if (!has_kill) v["no_kill"] = true;
  if (!has_freeze) v["no_freeze"] = true;
  if (reclaim_eff != 100) v["reclaim_eff"] = reclaim_eff;
  v["mpsi"] = mem_psi.toJson();
  v["iopsi"] = io_psi.toJson();
  Json::Value st(Json::arrayValue);
  for (auto& kv : stat) {
    Json::Value e(Json::arrayValue);
    e.append(kv.first);
    e.append(jInt(kv.second));
    st.append(e);
  }
  v["stat"] = st;
  if (!io_stat.empty()) {
    for (auto& d : io_stat) {
      Json::Value e(Json::arrayValue);
      e.append(d.major);
      e.append(d.minor);
      e.append(jInt(d.rbytes));
      e.append(jInt(d.wbytes));
      e.append(jInt(d.rios));
      e.append(jInt(d.wios));
      e.append(jInt(d.dbytes));
      e.append(jInt(d.dios));
      v["iostat"].append(e);
    }
  }
  if (oom_group) v["oom_group"] = oom_group;
  if (nr_dying) v["nr_dying"] = jInt(nr_dying);
  if (pids_current >= 0) v["pids_current"] = jInt(pids_current);
  for (auto& kv : xattrs) v["xattrs"][kv.first] = kv.second;
  for (auto& kv : faults) v["faults"][kv.first] = kv.second;
  for (auto& kv : write_fail) v["write_fail"][kv.first] = kv.second;
  return v;
}

Cg Cg::fromJson(const Json::Value& v) {
  Cg c;
  c.path = v["path"].asString();
  for (auto& p : v["pids"]) c.pids.push_back(p.asInt());
  c.zero_lines = v.get("zero_lines", 0).asInt();
  c.zombie = v.get("zombie", false).asBool();
  c.mem_current = v.get("cur", 0).asInt64();
  c.mem_min = v.get("min", 0).asInt64();
  c.mem_low = v.get("low", 0).asInt64();
  c.mem_high = v.get("high", (Json::Int64)kMax).asInt64();
  c.mem_max = v.get("max", (Json::Int64)kMax).asInt64();
  c.swap_current = v.get("swap", 0).asInt64();
  c.swap_max = v.get("swapmax", (Json::Int64)kMax).asInt64();
  if (v.isMember("high_tmp")) {
    c.has_high_tmp = true;
    c.high_tmp = v["high_tmp"].asInt64();
    c.high_tmp_us = v.get("high_tmp_us", 0).asInt64();
  }
  c.has_reclaim = !v.get("no_reclaim", false).asBool();
  c.has_kill = !v.get("no_kill", false).asBool();
  c.has_freeze = !v.get("no_freeze", false).asBool();
  c.reclaim_eff = v.get("reclaim_eff", 100).asInt();
  c.mem_psi = Psi::fromJson(v["mpsi"]);
  c.io_psi = Psi::fromJson(v["iopsi"]);
  for (auto& e : v["stat"]) {
    c.stat.emplace_back(e[0].asString(), e[1].asInt64());
  }
  for (auto& e : v["iostat"]) {
    IoDev d;
    d.major = e[0].asInt();
    d.minor = e[1].asInt();
    d.rbytes = e[2].asInt64();
    d.wbytes = e[3].asInt64();
    d.rios = e[4].asInt64();
    d.wios = e[5].asInt64();
    d.dbytes = e[6].asInt64();
    d.dios = e[7].asInt64();
    c.io_stat.push_back(d);
  }
  c.oom_group = v.get("oom_group", 0).asInt();
  c.nr_dying = v.get("nr_dying", 0).asInt64();
  c.pids_current = v.get("pids_current", -1).asInt64();
  if (v.isMember("xattrs"))
    for (auto& k : v["xattrs"].getMemberNames()) c.xattrs[k] = v["xattrs"][k].asString();
  if (v.isMember("faults"))
    for (auto& k : v["faults"].getMemberNames()) c.faults[k] = v["faults"][k].asString();
  if (v.isMember("write_fail"))
    for (auto& k : v["write_fail"].getMemberNames()) c.write_fail[k] = v["write_fail"][k].asInt();
  return c;
}

// ----------------------------------------------------------------- Host ---
int64_t Host::mem(const std::string& key, int64_t dflt) const {
  for (auto& kv : meminfo)
    if (kv.first == key) return kv.second;
  return dflt;
}
int64_t Host::vm(const std::string& key, int64_t dflt) const {
  for (auto& kv : vmstat)
    if (kv.first == key) return kv.second;
  return dflt;
}
Json::Value Host::toJson() const {
  Json::Value v(Json::objectValue);
  Json::Value mi(Json::arrayValue), vs(Json::arrayValue), sw(Json::arrayValue);
  for (auto& kv : meminfo) {
    Json::Value e(Json::arrayValue);
    e.append(kv.first);
    e.append(jInt(kv.second));
    mi.append(e);
  }
  for (auto& kv : vmstat) {
    Json::Value e(Json::arrayValue);
    e.append(kv.first);
    e.append(jInt(kv.second));
    vs.append(e);
  }
  for (auto& s : swaps) {
    Json::Value e(Json::arrayValue);
    e.append(jInt(s.size_kb));
    e.append(jInt(s.used_kb));
    sw.append(e);
  }
  v["meminfo"] = mi;
  v["vmstat"] = vs;
  v["swaps"] = sw;
  if (!has_swaps_file) v["no_swaps_file"] = true;
  v["mpsi"] = mem_psi.toJson();
  v["iopsi"] = io_psi.toJson();
  v["swappiness"] = swappiness;
  for (auto& kv : rotational) v["rotational"][kv.first] = kv.second;
  for (auto& kv : faults) v["faults"][kv.first] = kv.second;
  return v;
}
Host Host::fromJson(const Json::Value& v) {
  Host h;
  for (auto& e : v["meminfo"]) h.meminfo.emplace_back(e[0].asString(), e[1].asInt64());
  for (auto& e : v["vmstat"]) h.vmstat.emplace_back(e[0].asString(), e[1].asInt64());
  for (auto& e : v["swaps"]) h.swaps.push_back({e[0].asInt64(), e[1].asInt64()});
  h.has_swaps_file = !v.get("no_swaps_file", false).asBool();
  h.mem_psi = Psi::fromJson(v["mpsi"]);
  h.io_psi = Psi::fromJson(v["iopsi"]);
  h.swappiness = v.get("swappiness", 60).asInt();
  if (v.isMember("rotational"))
    for (auto& k : v["rotational"].getMemberNames()) h.rotational[k] = v["rotational"][k].asInt();
  if (v.isMember("faults"))
    for (auto& k : v["faults"].getMemberNames()) h.faults[k] = v["faults"][k].asString();
  return h;
}

// ---------------------------------------------------------------- World ---
Json::Value World::toJson() const {
  Json::Value v(Json::objectValue);
  v["cgs"] = Json::Value(Json::arrayValue);
  for (auto& c : cgs) v["cgs"].append(c.toJson());
  v["procs"] = Json::Value(Json::objectValue);
  for (auto& kv : procs) {
    if (kv.second.outcome == "dies") continue;
    Json::Value p(Json::objectValue);
    p["o"] = kv.second.outcome;
    if (kv.second.n) p["n"] = kv.second.n;
    v["procs"][std::to_string(kv.first)] = p;
  }
  v["host"] = host.toJson();
  return v;
}
World World::fromJson(const Json::Value& v) {
  World w;
  for (auto& c : v["cgs"]) w.cgs.push_back(Cg::fromJson(c));
  if (v.isMember("procs"))
    for (auto& k : v["procs"].getMemberNames()) {
      Proc p;
      p.outcome = v["procs"][k].get("o", "dies").asString();
      p.n = v["procs"][k].get("n", 0).asInt();
      w.procs[std::stoi(k)] = p;
    }
  w.host = Host::fromJson(v["host"]);
  return w;
}
Cg* World::find(const std::string& path) {
  for (auto& c : cgs)
    if (c.path == path) return &c;
  return nullptr;
}
const Cg* World::find(const std::string& path) const {
  for (auto& c : cgs)
    if (c.path == path) return &c;
  return nullptr;
}
static std::string parentOf(const std::string& p) {
  auto pos = p.rfind('/');
  return pos == std::string::npos ? std::string("") : p.substr(0, pos);
}
std::vector<const Cg*> World::children(const std::string& path) const {
  std::vector<const Cg*> r;
  for (auto& c : cgs)
    if (!c.path.empty() && parentOf(c.path) == path) r.push_back(&c);
  return r;
}
bool World::isDescendantOrSelf(const std::string& anc, const std::string& p) const {
  if (anc.empty()) return true;
  if (p == anc) return true;
  return p.size() > anc.size() && p.compare(0, anc.size(), anc) == 0 && p[anc.size()] == '/';
}
std::vector<int> World::subtreePids(const std::string& path) const {
  std::vector<int> r;
  for (auto& c : cgs)
    if (isDescendantOrSelf(path, c.path)) r.insert(r.end(), c.pids.begin(), c.pids.end());
  return r;
}
bool World::populated(const std::string& path) const {
  for (auto& c : cgs)
    if (isDescendantOrSelf(path, c.path) && (!c.pids.empty() || c.zombie)) return true;
  return false;
}

// ------------------------------------------------------------------- Op ---
Json::Value Op::toJson() const {
  Json::Value v(Json::objectValue);
  v["op"] = op;
  if (op == "rm" || op == "mv") v["path"] = path;
  if (op == "mk" || op == "set") v["cg"] = cg.toJson();
  if (op == "mv") v["to"] = to;
  if (op == "host") v["host"] = host.toJson();
  if (op == "proc") {
    v["pid"] = pid;
    v["o"] = proc.outcome;
    v["n"] = proc.n;
  }
  return v;
}
Op Op::fromJson(const Json::Value& v) {
  Op o;
  o.op = v["op"].asString();
  o.path = v.get("path", "").asString();
  o.to = v.get("to", "").asString();
  if (v.isMember("cg")) {
    o.cg = Cg::fromJson(v["cg"]);
    o.path = o.cg.path;
  }
  if (v.isMember("host")) o.host = Host::fromJson(v["host"]);
  o.pid = v.get("pid", 0).asInt();
  o.proc.outcome = v.get("o", "dies").asString();
  o.proc.n = v.get("n", 0).asInt();
  return o;
}

// ------------------------------------------------------------------ Sim ---
static void rmrf(const std::string& p) {
  DIR* d = opendir(p.c_str());
  if (d) {
    while (auto* e = readdir(d)) {
      if (!strcmp(e->d_name, ".") || !strcmp(e->d_name, "..")) continue;
      std::string c = p + "/" + e->d_name;
      struct stat st;
      if (lstat(c.c_str(), &st) == 0 && S_ISDIR(st.st_mode)) {
        rmrf(c);
      } else {
        unlink(c.c_str());
      }
    }
    closedir(d);
  }
  rmdir(p.c_str());
}

static void mkdirs(const std::string& p) {
  std::string cur;
  for (size_t i = 0; i <= p.size(); i++) {
    if (i == p.size() || p[i] == '/') {
      if (!cur.empty()) mkdir(cur.c_str(), 0755);
    }
    if (i < p.size()) cur += p[i];
  }
}

Sim::Sim(const std::string& scratch) : scratch_(scratch), cgroot_(scratch + "/cg") {
  Bypass b;
  mkdirs(cgroot_);
  mkdirs(scratch_ + "/proc/pressure");
  mkdirs(scratch_ + "/proc/sys/vm");
  mkdirs(scratch_ + "/sys/dev/block");
  mkdirs(scratch_ + "/dev");
  mkdirs(scratch_ + "/unreadable"); // a directory opened in place of a file
  int fd = ::open(kmsgPath().c_str(), O_WRONLY | O_CREAT | O_TRUNC, 0644);
  if (fd >= 0) ::close(fd);
}

Sim::~Sim() {
  Bypass b;
  for (auto& kv : pidfds_) ::close(kv.first);
  rmrf(scratch_);
}

void Sim::wipe() {
  Bypass b;
  for (auto& kv : pidfds_) ::close(kv.first);
  pidfds_.clear();
  rmrf(cgroot_);
  rmrf(scratch_ + "/proc");
  rmrf(scratch_ + "/sys");
  mkdirs(cgroot_);
  mkdirs(scratch_ + "/proc/pressure");
  mkdirs(scratch_ + "/proc/sys/vm");
  mkdirs(scratch_ + "/sys/dev/block");
  int fd = ::open(kmsgPath().c_str(), O_WRONLY | O_CREAT | O_TRUNC, 0644);
  if (fd >= 0) ::close(fd);
  ever_.clear();
  everX_.clear();
  w_ = World();
}

void Sim::writeFile(const std::string& abspath, const std::string& content) {
  int fd = ::open(abspath.c_str(), O_WRONLY | O_CREAT | O_TRUNC, 0644);
  if (fd < 0) {
    throw std::runtime_error("vp: cannot write " + abspath + ": " + strerror(errno));
  }
  size_t off = 0;
  while (off < content.size()) {
    ssize_t n = ::write(fd, content.data() + off, content.size() - off);
    if (n <= 0) break;
    off += n;
  }
  ::close(fd);
}

void Sim::fileWithFault(const Cg& c, const std::string& name, const std::string& content, bool present) {
  std::string p = cgroot_ + (c.path.empty() ? "" : "/" + c.path) + "/" + name;
  auto it = c.faults.find(name);
  if (!present || (it != c.faults.end() && it->second == "absent")) {
    ::unlink(p.c_str());
    return;
  }
  if (it != c.faults.end() && it->second == "empty") {
    writeFile(p, "");
    return;
  }
  writeFile(p, content);
}

void Sim::renderProcs(const Cg& c) {
  std::string s;
  int zeros = c.zero_lines;
  int i = 0;
  for (int p : c.pids) {
    s += std::to_string(p) + "\n";
    if (zeros > 0 && (++i % 7) == 3) {
      s += "0\n";
      zeros--;
    }
  }
  while (zeros-- > 0) s += "0\n";
  fileWithFault(c, "cgroup.procs", s);
}

void Sim::renderEvents(const std::string& path) {
  const Cg* c = w_.find(path);
  if (!c || path.empty()) return;
  std::string s = std::string("populated ") + (w_.populated(path) ? "1" : "0") + "\nfrozen " + std::to_string(c->frozen) + "\n";
  fileWithFault(*c, "cgroup.events", s);
}

void Sim::renderCg(const Cg& c) {
  bool root = c.path.empty();
  fileWithFault(c, "cgroup.controllers", "cpu io memory pids\n");
  renderProcs(c);
  fileWithFault(c, "cgroup.stat", "nr_descendants " + std::to_string(c.nr_descendants) + "\nnr_dying_descendants " + std::to_string(c.nr_dying) + "\n");
  std::string st;
  for (auto& kv : c.stat) st += kv.first + " " + std::to_string(kv.second) + "\n";
  fileWithFault(c, "memory.stat", st);
  std::string io;
  for (auto& d : c.io_stat) {
    io += std::to_string(d.major) + ":" + std::to_string(d.minor) + " rbytes=" + std::to_string(d.rbytes) + " wbytes=" + std::to_string(d.wbytes) + " rios=" + std::to_string(d.rios) + " wios=" + std::to_string(d.wios) + " dbytes=" + std::to_string(d.dbytes) + " dios=" + std::to_string(d.dios) + "\n";
  }
  fileWithFault(c, "io.stat", io);
  if (root) return;
  renderEvents(c.path);
  fileWithFault(c, "cgroup.freeze", std::to_string(c.frozen) + "\n", c.has_freeze);
  fileWithFault(c, "cgroup.kill", "", c.has_kill);
  fileWithFault(c, "memory.current", std::to_string(c.mem_current) + "\n");
  fileWithFault(c, "memory.min", renderInt(c.mem_min) + "\n");
  fileWithFault(c, "memory.low", renderInt(c.mem_low) + "\n");
  fileWithFault(c, "memory.high", renderInt(c.mem_high) + "\n");
  fileWithFault(c, "memory.max", renderInt(c.mem_max) + "\n");
  fileWithFault(c, "memory.high.tmp", renderInt(c.high_tmp) + " " + std::to_string(c.high_tmp_us) + "\n", c.has_high_tmp);
  fileWithFault(c, "memory.reclaim", "", c.has_reclaim);
  fileWithFault(c, "memory.swap.current", std::to_string(c.swap_current) + "\n");
  fileWithFault(c, "memory.swap.max", renderInt(c.swap_max) + "\n");
  fileWithFault(c, "memory.pressure", c.mem_psi.render());
  fileWithFault(c, "io.pressure", c.io_psi.render());
  fileWithFault(c, "memory.oom.group", std::to_string(c.oom_group) + "\n");
  fileWithFault(c, "pids.current", std::to_string(c.pids_current) + "\n", c.pids_current >= 0);
}

void Sim::mk(const Cg& c) {
  std::string dir = cgroot_ + (c.path.empty() ? "" : "/" + c.path);
  if (!c.path.empty()) {
    if (::mkdir(dir.c_str(), 0755) != 0 && errno != EEXIST) {
      throw std::runtime_error("vp: mkdir " + dir + ": " + strerror(errno));
    }
  }
  struct stat stt;
  if (::stat(dir.c_str(), &stt) == 0) {
    // identities as the code under test sees them (kernfs-style when the scenario asks for it)
    uint64_t ident = g.virt_ino ? g.virtRegister(c.path, stt.st_ino) : (uint64_t)stt.st_ino;
    ever_[ident] = c.path;
    everX_[ident] = c.xattrs;
  }
  for (auto& kv : c.xattrs) {
    if (::setxattr(dir.c_str(), kv.first.c_str(), kv.second.data(), kv.second.size(), 0) != 0) {
      throw std::runtime_error("vp: setxattr " + kv.first + " on " + dir + ": " + strerror(errno));
    }
  }
  renderCg(c);
}

void Sim::rm(const std::string& path) {
  rmrf(cgroot_ + "/" + path);
  std::vector<Cg> keep;
  for (auto& c : w_.cgs) {
    if (w_.isDescendantOrSelf(path, c.path) && !path.empty()) {
      for (int p : c.pids) w_.procs.erase(p);
      continue;
    }
    keep.push_back(c);
  }
  w_.cgs = keep;
}

void Sim::renderHost() {
  const Host& h = w_.host;
  auto put = [&](const std::string& key, const std::string& rel, const std::string& content, bool present = true) {
    std::string p = scratch_ + rel;
    auto it = h.faults.find(key);
    if (!present || (it != h.faults.end() && it->second == "absent")) {
      ::unlink(p.c_str());
      return;
    }
    if (it != h.faults.end() && it->second == "empty") {
      writeFile(p, "");
      return;
    }
    writeFile(p, content);
  };
  std::string mi;
  for (auto& kv : h.meminfo) {
    char b[128];
    snprintf(b, sizeof b, "%-15s %8ld kB\n", (kv.first + ":").c_str(), (long)kv.second);
    mi += b;
  }
  put("meminfo", "/proc/meminfo", mi);
  std::string vs;
  for (auto& kv : h.vmstat) vs += kv.first + " " + std::to_string(kv.second) + "\n";
  put("vmstat", "/proc/vmstat", vs);
  std::string sw = "Filename\t\t\t\tType\t\tSize\t\tUsed\t\tPriority\n";
  int i = 0;
  for (auto& s : h.swaps) {
    sw += "/dev/sw" + std::to_string(i++) + "                               partition\t" + std::to_string(s.size_kb) + "\t" + std::to_string(s.used_kb) + "\t-2\n";
  }
  put("swaps", "/proc/swaps", sw, h.has_swaps_file);
  put("pressure/memory", "/proc/pressure/memory", h.mem_psi.render());
  put("pressure/io", "/proc/pressure/io", h.io_psi.render());
  put("swappiness", "/proc/sys/vm/swappiness", std::to_string(h.swappiness) + "\n");
  for (auto& kv : h.rotational) {
    mkdirs(scratch_ + "/sys/dev/block/" + kv.first + "/queue");
    writeFile(scratch_ + "/sys/dev/block/" + kv.first + "/queue/rotational", std::to_string(kv.second) + "\n");
  }
}

void Sim::materialize(const World& w) {
  Bypass b;
  wipe();
  w_ = w;
  bool haveRoot = false;
  for (auto& c : w_.cgs) {
    if (c.path.empty()) haveRoot = true;
  }
  if (!haveRoot) {
    Cg root;
    root.path = "";
    w_.cgs.insert(w_.cgs.begin(), root);
  }
  for (auto& c : w_.cgs) mk(c);
  // events depend on descendants: re-render once everything exists
  for (auto& c : w_.cgs) renderEvents(c.path);
  renderHost();
}

void Sim::apply(const Op& op) {
  Bypass b;
  if (op.op == "rm") {
    rm(op.path);
  } else if (op.op == "mv") {
    // rename(2) of a cgroup directory: same inode, new path, for the whole subtree
    std::string par = parentOf(op.to);
    if (!w_.find(op.path) || w_.find(op.to) || op.path.empty() || (!par.empty() && !w_.find(par))) return;
    std::string from = cgroot_ + "/" + op.path, dest = cgroot_ + "/" + op.to;
    if (::rename(from.c_str(), dest.c_str()) != 0) return;
    for (auto& c : w_.cgs) {
      if (c.path == op.path) {
        c.path = op.to;
      } else if (c.path.compare(0, op.path.size() + 1, op.path + "/") == 0) {
        c.path = op.to + c.path.substr(op.path.size());
      }
    }
    // parents before children
    std::stable_sort(w_.cgs.begin(), w_.cgs.end(), [](const Cg& a, const Cg& b) { return std::count(a.path.begin(), a.path.end(), '/') + (a.path.empty() ? -1 : 0) < std::count(b.path.begin(), b.path.end(), '/') + (b.path.empty() ? -1 : 0); });
    struct stat st;
    if (::stat(dest.c_str(), &st) == 0) ever_[g.virtOf(st.st_ino)] = op.to;
  } else if (op.op == "mk") {
    if (w_.find(op.cg.path)) {
      // already exists: treat as remove + re-create (a different cgroup)
      rm(op.cg.path);
    }
    std::string par = parentOf(op.cg.path);
    if (!par.empty() && !w_.find(par)) return; // parent gone: ignore
    w_.cgs.push_back(op.cg);
    mk(op.cg);
  } else if (op.op == "set") {
    Cg* c = w_.find(op.cg.path);
    if (!c) return;
    // xattrs: remove old ones not present any more
    std::string dir = cgroot_ + "/" + op.cg.path;
    // xattrs: only what the spec changes (oomd may have updated others itself)
    for (auto& kv : c->xattrs)
      if (!op.cg.xattrs.count(kv.first)) ::removexattr(dir.c_str(), kv.first.c_str());
    for (auto& kv : op.cg.xattrs) {
      auto old = c->xattrs.find(kv.first);
      if (old == c->xattrs.end() || old->second != kv.second)
        ::setxattr(dir.c_str(), kv.first.c_str(), kv.second.data(), kv.second.size(), 0);
    }
    // "set" keeps the live pids and adds the listed ones
    std::vector<int> live = c->pids;
    std::vector<int> add = op.cg.pids;
    *c = op.cg;
    c->pids = live;
    for (int p : add)
      if (std::find(c->pids.begin(), c->pids.end(), p) == c->pids.end()) c->pids.push_back(p);
    renderCg(*c);
  } else if (op.op == "host") {
    w_.host = op.host;
    renderHost();
  } else if (op.op == "proc") {
    w_.procs[op.pid] = op.proc;
  }
  // populated flags of every ancestor may have changed
  for (auto& c : w_.cgs) renderEvents(c.path);
}

uint64_t Sim::inode(const std::string& path) const {
  Bypass b;
  struct stat st;
  std::string dir = cgroot_ + (path.empty() ? "" : "/" + path);
  if (::stat(dir.c_str(), &st) != 0) return 0;
  return g.virtOf(st.st_ino);
}

std::optional<std::string> Sim::getx(const std::string& path, const std::string& name) const {
  Bypass b;
  std::string dir = cgroot_ + (path.empty() ? "" : "/" + path);
  char buf[512];
  ssize_t n = ::getxattr(dir.c_str(), name.c_str(), buf, sizeof buf);
  if (n < 0) return std::nullopt;
  return std::string(buf, n);
}

int Sim::onKill(pid_t pid, int sig) {
  if (pid <= 0) return EINVAL; // recorded by the shim; never reaches the kernel
  Cg* owner = nullptr;
  for (auto& c : w_.cgs)
    if (std::find(c.pids.begin(), c.pids.end(), (int)pid) != c.pids.end()) owner = &c;
  if (!owner) return ESRCH;
  Proc pr;
  auto it = w_.procs.find(pid);
  if (it != w_.procs.end()) pr = it->second;
  if (pr.outcome == "eperm") return EPERM;
  if (pr.outcome == "esrch") return ESRCH;
  if (sig != SIGKILL) return 0;
  if (pr.outcome == "linger" && pr.n > 0) {
    w_.procs[pid].n = pr.n - 1;
    return 0;
  }
  owner->pids.erase(std::find(owner->pids.begin(), owner->pids.end(), (int)pid));
  w_.procs.erase(pid);
  std::string path = owner->path;
  renderProcs(*owner);
  for (auto& c : w_.cgs) renderEvents(c.path);
  return 0;
}

int Sim::onPidfdOpen(pid_t pid) {
  if (pid <= 0) return -EINVAL;
  bool live = false;
  for (auto& c : w_.cgs)
    if (std::find(c.pids.begin(), c.pids.end(), (int)pid) != c.pids.end()) live = true;
  if (!live) return -ESRCH;
  int fd = ::open("/dev/null", O_RDONLY);
  if (fd < 0) return -EMFILE;
  pidfds_[fd] = pid;
  return fd;
}

int Sim::onMrelease(int fd) {
  auto it = pidfds_.find(fd);
  if (it == pidfds_.end()) return -EBADF;
  // process_mrelease only works on a dying process
  return -EINVAL;
}

static bool parseSize(const std::string& tok, int64_t* out) {
  if (tok == "max") {
    *out = kMax;
    return true;
  }
  if (tok.empty()) return false;
  errno = 0;
  char* end = nullptr;
  long long v = strtoll(tok.c_str(), &end, 10);
  if (errno || *end) return false;
  if (v < 0) return false;
  *out = v;
  return true;
}

std::string Sim::unreadableSubstitute(const std::string& abspath) const {
  if (abspath.compare(0, cgroot_.size(), cgroot_) == 0) {
    std::string rel = abspath.size() > cgroot_.size() ? abspath.substr(cgroot_.size() + 1) : "";
    auto pos = rel.rfind('/');
    std::string cg = pos == std::string::npos ? "" : rel.substr(0, pos);
    std::string file = pos == std::string::npos ? rel : rel.substr(pos + 1);
    const Cg* c = w_.find(cg);
    if (c) {
      auto it = c->faults.find(file);
      if (it != c->faults.end() && it->second == "unreadable") return scratch_ + "/unreadable";
    }
    return "";
  }
  for (auto& kv : w_.host.faults) {
    if (kv.second != "unreadable") continue;
    std::string p = scratch_ + "/proc/" + kv.first;
    if (kv.first == "swappiness") p = scratch_ + "/proc/sys/vm/swappiness";
    if (p == abspath) return scratch_ + "/unreadable";
  }
  return "";
}

long Sim::onWrite(const std::string& abspath, const std::string& data) {
  lastKillCount = -1;
  std::string d = data;
  while (!d.empty() && (d.back() == '\n' || d.back() == ' ')) d.pop_back();
  if (abspath == scratch_ + "/proc/sys/vm/swappiness") {
    w_.host.swappiness = atoi(d.c_str());
    writeFile(abspath, std::to_string(w_.host.swappiness) + "\n");
    return data.size();
  }
  if (abspath.compare(0, cgroot_.size() + 1, cgroot_ + "/") != 0) {
    return data.size();
  }
  std::string rel = abspath.substr(cgroot_.size() + 1);
  auto pos = rel.rfind('/');
  std::string cgp = pos == std::string::npos ? "" : rel.substr(0, pos);
  std::string file = pos == std::string::npos ? rel : rel.substr(pos + 1);
  Cg* c = w_.find(cgp);
  if (!c) {
    // a removed cgroup (held fd): the kernel answers ENODEV
    return -ENODEV;
  }
  auto wf = c->write_fail.find(file);
  if (wf != c->write_fail.end()) return -wf->second;
  auto page = [](int64_t v) { return v == kMax ? v : (v & ~int64_t(0xFFF)); };
  int64_t v;
  if (file == "memory.high" || file == "memory.max" || file == "memory.min" || file == "memory.low") {
    if (!parseSize(d, &v)) return -EINVAL;
    v = page(v);
    if (file == "memory.high") c->mem_high = v;
    if (file == "memory.max") c->mem_max = v;
    if (file == "memory.min") c->mem_min = v;
    if (file == "memory.low") c->mem_low = v;
    writeFile(abspath, renderInt(v) + "\n");
  } else if (file == "memory.high.tmp") {
    auto sp = d.find(' ');
    if (sp == std::string::npos) return -EINVAL;
    int64_t us;
    if (!parseSize(d.substr(0, sp), &v) || !parseSize(d.substr(sp + 1), &us)) return -EINVAL;
    c->high_tmp = page(v);
    c->high_tmp_us = us;
    writeFile(abspath, renderInt(c->high_tmp) + " " + std::to_string(us) + "\n");
  } else if (file == "memory.reclaim") {
    auto sp = d.find(' ');
    if (!parseSize(d.substr(0, sp), &v) || v == kMax) return -EINVAL;
    __int128 got = (__int128)v * c->reclaim_eff / 100;
    int64_t g = (int64_t)got & ~int64_t(0xFFF);
    if (g > c->mem_current) g = c->mem_current;
    c->mem_current -= g;
    fileWithFault(*c, "memory.current", std::to_string(c->mem_current) + "\n");
    if (c->reclaim_eff < 100) return -EAGAIN;
  } else if (file == "cgroup.freeze") {
    c->frozen = atoi(d.c_str());
    renderCg(*c);
  } else if (file == "cgroup.kill") {
    if (d != "1") return -ERANGE;
    lastKillCount = 0;
    bool wasPopulated = w_.populated(cgp);
    for (auto& cc : w_.cgs) {
      if (!w_.isDescendantOrSelf(cgp, cc.path)) continue;
      lastKillCount += (long)cc.pids.size();
      for (int p : cc.pids) w_.procs.erase(p);
      cc.pids.clear();
      cc.zombie = false;
      renderProcs(cc);
    }
    for (auto& cc : w_.cgs) renderEvents(cc.path);
    if (wasPopulated && lastKillCount == 0) lastKillCount = 1; // populated by something not listed
    if (!wasPopulated) lastKillCount = 0;
  }
  return data.size();
}

} // namespace vp
