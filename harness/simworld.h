// SimWorld: a simulated cgroup2 host on tmpfs with a small kernel model
// (DESIGN.md 3.3). The world is a plain value with a JSON form; reference models
// read the value, never the files.
#pragma once
#include <json/json.h>
#include <cstdint>
#include <map>
#include <optional>
#include <set>
#include <string>
#include <vector>

namespace vp {

constexpr int64_t kMax = INT64_MAX; // rendered as "max"

struct Psi {
  // averages in hundredths of a percent (kernel prints %.2f), totals in usec
  int some[3]{0, 0, 0};
  int full[3]{0, 0, 0};
  uint64_t some_total{0};
  uint64_t full_total{0};
  bool legacy{false}; // old "aggr" format, no totals
  Json::Value toJson() const;
  static Psi fromJson(const Json::Value& v);
  std::string render() const;
};

struct IoDev {
  int major{0}, minor{0};
  int64_t rbytes{0}, wbytes{0}, rios{0}, wios{0}, dbytes{0}, dios{0};
};

struct Cg {
  std::string path; // relative to the cgroup root, no leading slash, "" = root
  std::vector<int> pids; // cgroup.procs (live processes)
  int zero_lines{0}; // extra "0" lines (pids of another pid namespace)
  bool zombie{false}; // populated although no listed pid (e.g. zombies only)
  int64_t mem_current{0}, mem_min{0}, mem_low{0}, mem_high{kMax},
      mem_max{kMax};
  int64_t swap_current{0}, swap_max{kMax};
  bool has_high_tmp{false};
  int64_t high_tmp{kMax};
  int64_t high_tmp_us{0};
  bool has_reclaim{true}, has_kill{true}, has_freeze{true};
  int frozen{0};
  int reclaim_eff{100}; // percent of a memory.reclaim request actually reclaimed
  Psi mem_psi, io_psi;
  std::vector<std::pair<std::string, int64_t>> stat; // memory.stat, ordered
  std::vector<IoDev> io_stat;
  int oom_group{0};
  int64_t nr_dying{0};
  int64_t nr_descendants{0};
  int64_t pids_current{-1}; // <0: no pids controller (file absent)
  std::map<std::string, std::string> xattrs;
  // per-file faults: file name -> "absent" | "empty" | "unreadable"
  std::map<std::string, std::string> faults;
  // per-file write failures: file name -> errno
  std::map<std::string, int> write_fail;

  Json::Value toJson() const;
  static Cg fromJson(const Json::Value& v);
  int64_t statv(const std::string& key, int64_t dflt = 0) const;
};

struct Proc {
  std::string outcome{"dies"}; // dies | linger | eperm | esrch
  int n{0}; // linger: survives n successful signals before vanishing
};

struct Host {
  std::vector<std::pair<std::string, int64_t>> meminfo; // kB values
  std::vector<std::pair<std::string, int64_t>> vmstat;
  struct Swap {
    int64_t size_kb{0}, used_kb{0};
  };
  std::vector<Swap> swaps;
  bool has_swaps_file{true};
  Psi mem_psi, io_psi;
  int swappiness{60};
  std::map<std::string, int> rotational; // "8:0" -> 1 (hdd) / 0 (ssd)
  std::map<std::string, std::string> faults; // "meminfo" -> absent|empty ...
  Json::Value toJson() const;
  static Host fromJson(const Json::Value& v);
  int64_t mem(const std::string& key, int64_t dflt = 0) const;
  int64_t vm(const std::string& key, int64_t dflt = 0) const;
};

struct World {
  std::vector<Cg> cgs; // parents before children; root ("") optional, first
  std::map<int, Proc> procs;
  Host host;

  Json::Value toJson() const;
  static World fromJson(const Json::Value& v);

  Cg* find(const std::string& path);
  const Cg* find(const std::string& path) const;
  std::vector<const Cg*> children(const std::string& path) const;
  bool isDescendantOrSelf(const std::string& anc, const std::string& p) const;
  std::vector<int> subtreePids(const std::string& path) const;
  bool populated(const std::string& path) const;
};

// A world mutation between two ticks
struct Op {
  std::string op; // "rm" | "mk" | "set" | "host" | "proc" | "mv"
  std::string path;
  std::string to; // "mv": new path (the directory keeps its inode)
  Cg cg;
  Host host;
  int pid{0};
  Proc proc;
  Json::Value toJson() const;
  static Op fromJson(const Json::Value& v);
};

// The materialised world: a World plus its directory on tmpfs, kept in sync.
class Sim {
 public:
  explicit Sim(const std::string& scratch); // scratch/{cg,proc,sys,dev}
  ~Sim();
  void materialize(const World& w);
  void apply(const Op& op);
  World& world() {
    return w_;
  }
  const std::string& cgroot() const {
    return cgroot_;
  }
  const std::string& scratch() const {
    return scratch_;
  }
  // identity (inode) of a cgroup directory; 0 if absent
  uint64_t inode(const std::string& path) const;
  // every (inode -> path) this Sim ever created, for identity checks
  const std::map<uint64_t, std::string>& everInodes() const {
    return ever_;
  }
  // xattrs each cgroup directory was created with, by inode
  const std::map<uint64_t, std::map<std::string, std::string>>& initialXattrs() const {
    return everX_;
  }
  // kernel model -----------------------------------------------------------
  int onKill(pid_t pid, int sig); // 0 or errno
  long onWrite(const std::string& abspath, const std::string& data);
  // processes that a write of cgroup.kill found in the subtree (-1: the last write was something else)
  long lastKillCount{-1};
  int onPidfdOpen(pid_t pid); // fd or -errno
  int onMrelease(int fd);
  // path substitution for "unreadable" faults; "" if none
  std::string unreadableSubstitute(const std::string& abspath) const;
  // read back xattr of a cgroup dir (real fs)
  std::optional<std::string> getx(const std::string& path, const std::string& name) const;
  void wipe();
  // every pid ever listed under each cgroup path during the lifetime
  void renderCg(const Cg& c);
  void renderProcs(const Cg& c);
  void renderEvents(const std::string& path);
  void renderHost();
  std::string kmsgPath() const {
    return scratch_ + "/dev/kmsg";
  }

 private:
  void mk(const Cg& c);
  void rm(const std::string& path);
  void writeFile(const std::string& abspath, const std::string& content);
  void fileWithFault(const Cg& c, const std::string& name, const std::string& content, bool present = true);
  std::string scratch_, cgroot_;
  World w_;
  std::map<uint64_t, std::string> ever_;
  std::map<uint64_t, std::map<std::string, std::string>> everX_;
  std::map<int, int> pidfds_; // fake pidfd -> pid
};

std::string renderInt(int64_t v); // "max" for kMax

} // namespace vp
