// StatModel: reference function "kernel files + tick history -> every
// CgroupContext accessor" (DESIGN.md 3.5, §C15). Computed from the SimWorld
// values, never from the files.
#pragma once
#include <json/json.h>
#include <cmath>
#include <map>
#include <string>

#include "models.h"
#include "simworld.h"

namespace vps {

using vp::Cg;
using vp::kMax;
using vp::World;

struct SysCtx {
  uint64_t swaptotal{0}, swapused{0};
};
inline SysCtx sysOf(const World& w) {
  SysCtx s;
  if (w.host.has_swaps_file && !w.host.faults.count("swaps")) {
    for (auto& sw : w.host.swaps) {
      s.swaptotal += (uint64_t)sw.size_kb * 1024;
      s.swapused += (uint64_t)sw.used_kb * 1024;
    }
  }
  return s;
}

struct DevCfg {
  std::map<std::string, std::string> devs; // "8:0" -> "ssd"|"hdd"
  double hdd[6]{1.31e-3, 1.13e-7, 2.58e-1, 5.04e-7, 0, 0};
  double ssd[6]{1.21e-2, 6.25e-7, 1.07e-3, 2.61e-7, 2.37e-2, 9.10e-10};
};

inline Json::Value J(int64_t v) {
  return Json::Value((Json::Int64)v);
}
inline Json::Value psiJ(const int avg[3], uint64_t total, bool legacy) {
  Json::Value a(Json::arrayValue);
  for (int i = 0; i < 3; i++) a.append((double)(float)(avg[i] / 100.0));
  if (legacy) {
    a.append(Json::Value());
  } else {
    a.append((Json::UInt64)total);
  }
  return a;
}

inline std::string parentOf(const std::string& p) {
  auto pos = p.rfind('/');
  return pos == std::string::npos ? std::string("") : p.substr(0, pos);
}

// raw protection R(c) = min(current, max(min, low))
inline int64_t rawProt(const Cg& c) {
  return std::min(c.mem_current, std::max(c.mem_min, c.mem_low));
}

// P(c) as a long double following the documented recursion
inline long double protection(const World& w, const std::string& path, int64_t rootCurrent) {
  if (path.empty()) return (long double)rootCurrent;
  const Cg* c = w.find(path);
  std::string par = parentOf(path);
  if (par.empty()) return (long double)rawProt(*c);
  long double sum = 0;
  for (auto* s : w.children(par)) sum += (long double)rawProt(*s);
  if (sum == 0) return 0;
  long double pp = protection(w, par, rootCurrent);
  // the implementation truncates the parent's value to an integer first
  pp = std::floor(pp);
  long double f = pp / sum;
  if (f > 1.0L) f = 1.0L;
  return (long double)rawProt(*c) * f;
}

// effective swap values: min / max over the ancestors (root = host swap)
struct EffSwap {
  int64_t max{0}, free{0};
  double util{0};
  bool utilDontCare{false};
};
inline EffSwap effSwap(const World& w, const std::string& path) {
  SysCtx sys = sysOf(w);
  EffSwap e;
  e.max = (int64_t)sys.swaptotal;
  e.free = (int64_t)(sys.swaptotal - sys.swapused);
  e.util = sys.swaptotal ? (double)sys.swapused / (double)sys.swaptotal : 0.0;
  auto comps = vpm::splitPath(path);
  for (size_t i = 1; i <= comps.size(); i++) {
    const Cg* a = w.find(vpm::joinPath(comps, i));
    if (!a) break;
    e.max = std::min(e.max, a->swap_max);
    e.free = std::min(e.free, a->swap_max - a->swap_current);
    if (a->swap_max == 0) {
      e.utilDontCare = true;
    } else {
      e.util = std::max(e.util, (double)a->swap_current / (double)a->swap_max);
    }
  }
  return e;
}

inline std::string faultOf(const Cg& c, const std::string& f) {
  auto it = c.faults.find(f);
  return it == c.faults.end() ? std::string() : it->second;
}

// Per-file faults (absent | empty | unreadable): the statistics read from
// that file are unavailable (null). Where the code's answer for an empty
// file is a defensible value rather than "unavailable" (memory.oom.group,
// cgroup.stat, the memory.stat map itself) the field is a don't-care.
// Derived values whose formula mixes several cgroups' files (protection) are
// don't-cares as soon as any of their inputs is faulted anywhere.
inline void applyFaults(Json::Value& e, const World& w, const std::string& path) {
  const Cg* c = w.find(path);
  bool root = path.empty();
  auto null = [&](const char* k) { e[k] = Json::Value(); };
  auto dc = [&](const char* k) { e[k] = "dontcare"; };
  std::string m;
  if (!(m = faultOf(*c, "memory.stat")).empty()) {
    if (m == "empty") {
      dc("memory_stat");
    } else {
      null("memory_stat");
    }
    for (const char* k : {"anon_usage", "file_usage", "shmem_usage", "pg_scan_cumulative", "pg_scan_rate"}) null(k);
  }
  if (!(m = faultOf(*c, "io.stat")).empty() && m != "empty") {
    null("io_stat");
    null("io_cost_cumulative");
    null("io_cost_rate");
  }
  if (!(m = faultOf(*c, "cgroup.stat")).empty()) {
    if (m == "empty") {
      dc("nr_dying_descendants");
    } else {
      null("nr_dying_descendants");
    }
  }
  bool protFault = false;
  for (auto& x : w.cgs)
    if (!x.path.empty())
      for (const char* f : {"memory.current", "memory.min", "memory.low"})
        if (!faultOf(x, f).empty()) protFault = true;
  if (protFault) {
    dc("memory_protection");
    dc("effective_usage");
  }
  if (root) return;
  if (!faultOf(*c, "memory.pressure").empty()) {
    null("mem_pressure");
    null("mem_pressure_some");
  }
  if (!faultOf(*c, "io.pressure").empty()) {
    null("io_pressure");
    null("io_pressure_some");
  }
  if (!faultOf(*c, "memory.current").empty()) {
    for (const char* k : {"current_usage", "average_usage", "memory_growth", "effective_usage"}) null(k);
  }
  if (!faultOf(*c, "memory.swap.current").empty()) null("swap_usage");
  if (!faultOf(*c, "memory.swap.max").empty()) null("swap_max");
  if (!faultOf(*c, "memory.low").empty()) null("memory_low");
  if (!faultOf(*c, "memory.min").empty()) null("memory_min");
  if (!faultOf(*c, "memory.high").empty()) null("memory_high");
  if (!faultOf(*c, "memory.max").empty()) null("memory_max");
  if (!faultOf(*c, "memory.high.tmp").empty()) null("memory_high_tmp");
  if (!faultOf(*c, "cgroup.events").empty()) null("is_populated");
  if (!(m = faultOf(*c, "memory.oom.group")).empty()) {
    if (m == "empty") {
      dc("oom_group");
    } else {
      null("oom_group");
    }
  }
  // effective swap values: unavailable below the first ancestor whose own
  // swap files are unavailable
  auto comps = vpm::splitPath(path);
  bool maxF = false, curF = false;
  for (size_t i = 1; i <= comps.size(); i++) {
    const Cg* a = w.find(vpm::joinPath(comps, i));
    if (!a) break;
    if (!faultOf(*a, "memory.swap.max").empty()) maxF = true;
    if (!faultOf(*a, "memory.swap.current").empty()) curF = true;
  }
  if (maxF) null("effective_swap_max");
  if (maxF || curF) {
    null("effective_swap_free");
    dc("effective_swap_util_pct");
  }
}

struct Hist { // what the implementation remembered from the previous tick
  bool have{false};
  Json::Value prev; // previous observation of the same cgroup identity
};

// expected observation of one cgroup; fields that are "unavailable" are null
inline Json::Value expectCg(
    const World& w,
    const std::string& path,
    const DevCfg& dev,
    const Hist& h,
    uint64_t inode) {
  Json::Value e(Json::objectValue);
  const Cg* c0 = w.find(path);
  Cg ccopy = *c0;
  // an empty io.stat is a valid file: a cgroup that has done no io
  if (faultOf(ccopy, "io.stat") == "empty") ccopy.io_stat.clear();
  const Cg* c = &ccopy;
  bool root = path.empty();
  SysCtx sys = sysOf(w);
  Json::Value kids(Json::arrayValue);
  {
    std::vector<std::string> names;
    for (auto* ch : w.children(path)) names.push_back(ch->path.substr(root ? 0 : path.size() + 1));
    std::sort(names.begin(), names.end());
    for (auto& n : names) kids.append(n);
  }
  e["children"] = kids;
  const vp::Psi& mp = root ? w.host.mem_psi : c->mem_psi;
  const vp::Psi& ip = root ? w.host.io_psi : c->io_psi;
  e["mem_pressure"] = psiJ(mp.full, mp.full_total, mp.legacy);
  e["mem_pressure_some"] = psiJ(mp.some, mp.some_total, mp.legacy);
  e["io_pressure"] = psiJ(ip.full, ip.full_total, ip.legacy);
  e["io_pressure_some"] = psiJ(ip.some, ip.some_total, ip.legacy);
  Json::Value st(Json::objectValue);
  for (auto& kv : c->stat) st[kv.first] = J(kv.second);
  e["memory_stat"] = st;
  Json::Value ios(Json::arrayValue);
  for (auto& d : c->io_stat) {
    Json::Value x(Json::arrayValue);
    x.append(std::to_string(d.major) + ":" + std::to_string(d.minor));
    x.append(J(d.rbytes));
    x.append(J(d.wbytes));
    x.append(J(d.rios));
    x.append(J(d.wios));
    x.append(J(d.dbytes));
    x.append(J(d.dios));
    ios.append(x);
  }
  e["io_stat"] = ios;
  e["id"] = (Json::UInt64)inode;
  int64_t rootCur = (w.host.mem("MemTotal") - w.host.mem("MemFree")) * 1024;
  int64_t cur = root ? rootCur : c->mem_current;
  e["current_usage"] = J(cur);
  auto nullIfRoot = [&](int64_t v) { return root ? Json::Value() : J(v); };
  e["swap_usage"] = nullIfRoot(c->swap_current);
  e["swap_max"] = nullIfRoot(c->swap_max);
  e["memory_low"] = nullIfRoot(c->mem_low);
  e["memory_min"] = nullIfRoot(c->mem_min);
  e["memory_high"] = nullIfRoot(c->mem_high);
  e["memory_max"] = nullIfRoot(c->mem_max);
  e["memory_high_tmp"] = (root || !c->has_high_tmp) ? Json::Value() : J(c->high_tmp);
  e["nr_dying_descendants"] = J(c->nr_dying);
  e["is_populated"] = root ? Json::Value() : Json::Value(w.populated(path));
  int pref = 0;
  if (c->xattrs.count("trusted.oomd_prefer") || c->xattrs.count("user.oomd_prefer")) {
    pref = 1;
  } else if (c->xattrs.count("trusted.oomd_avoid") || c->xattrs.count("user.oomd_avoid")) {
    pref = -1;
  }
  e["kill_preference"] = pref;
  e["oom_group"] = root ? Json::Value() : Json::Value(c->oom_group == 1);
  // effective swap values: min / max over the ancestors
  {
    int64_t emax = (int64_t)sys.swaptotal;
    int64_t efree = (int64_t)(sys.swaptotal - sys.swapused);
    double eutil = sys.swaptotal ? (double)sys.swapused / (double)sys.swaptotal : 0.0;
    bool utilDontCare = false;
    auto comps = vpm::splitPath(path);
    for (size_t i = 1; i <= comps.size(); i++) {
      const Cg* a = w.find(vpm::joinPath(comps, i));
      emax = std::min(emax, a->swap_max);
      efree = std::min(efree, a->swap_max - a->swap_current);
      if (a->swap_max == 0) {
        // usage / 0: the level contributes no defined ratio
        utilDontCare = true;
      } else {
        eutil = std::max(eutil, (double)a->swap_current / (double)a->swap_max);
      }
    }
    e["effective_swap_max"] = J(emax);
    e["effective_swap_free"] = J(efree);
    e["effective_swap_util_pct"] = utilDontCare ? Json::Value("dontcare") : Json::Value(eutil);
  }
  e["memory_protection"] = (double)protection(w, path, rootCur);
  // io cost: coefficient dot product over the configured devices
  {
    long double cost = 0;
    for (auto& d : c->io_stat) {
      auto it = dev.devs.find(std::to_string(d.major) + ":" + std::to_string(d.minor));
      if (it == dev.devs.end()) continue;
      const double* k = it->second == "hdd" ? dev.hdd : dev.ssd;
      cost += (long double)d.rios * k[0] + (long double)d.rbytes * k[1] + (long double)d.wios * k[2] + (long double)d.wbytes * k[3] + (long double)d.dios * k[4] + (long double)d.dbytes * k[5];
    }
    e["io_cost_cumulative"] = (double)cost;
    // the rate is a difference of two large doubles: absolute tolerance
    e["io_cost_rate.tol"] = 1e-9 * std::max(1.0, std::fabs((double)cost));
    if (h.have && h.prev["io_cost_cumulative"].isNumeric()) {
      e["io_cost_rate"] = (double)(cost - (long double)h.prev["io_cost_cumulative"].asDouble());
    } else {
      e["io_cost_rate"] = 0.0;
    }
  }
  int64_t pgscan = c->statv("pgscan", -1);
  e["pg_scan_cumulative"] = pgscan >= 0 ? J(pgscan) : Json::Value();
  if (h.have && h.prev["pg_scan_cumulative"].isIntegral() && pgscan >= 0) {
    e["pg_scan_rate"] = J(pgscan - h.prev["pg_scan_cumulative"].asInt64());
  } else {
    e["pg_scan_rate"] = Json::Value();
  }
  {
    long double prev = (h.have && h.prev["average_usage"].isIntegral()) ? (long double)h.prev["average_usage"].asInt64() : 0.0L;
    long double avg = prev * 0.75L + (long double)cur / 4.0L;
    e["average_usage"] = (double)avg;
    e["memory_growth"] = avg < 1.0L ? Json::Value("dontcare") : Json::Value((double)((long double)cur / std::floor(avg)));
  }
  int64_t anon = c->statv("anon", -1), file = c->statv("file", -1), shmem = c->statv("shmem", -1);
  e["anon_usage"] = anon >= 0 ? J(anon) : Json::Value();
  e["file_usage"] = file >= 0 ? J(file) : Json::Value();
  e["shmem_usage"] = shmem >= 0 ? J(shmem) : Json::Value();
  e["effective_usage"] = (double)((long double)cur - std::floor(protection(w, path, rootCur)));
  // usage - protection is a difference: its rounding error is that of the operands (the protection is a product
  // computed in double), not that of the possibly much smaller result
  e["effective_usage.tol"] = (double)std::ldexp(std::max((long double)cur, std::floor(protection(w, path, rootCur))), -48);
  applyFaults(e, w, path);
  return e;
}

// field comparison with the tolerances of DESIGN.md §C15; "" if equal
inline std::string cmpField(const std::string& f, const Json::Value& exp, const Json::Value& obs, double abstol = 0) {
  auto show = [&](const Json::Value& v) {
    Json::StreamWriterBuilder b;
    b["indentation"] = "";
    b["precision"] = 17;
    return Json::writeString(b, v);
  };
  if (exp.isString() && exp.asString() == "dontcare") return "";
  if (exp.isNull() || obs.isNull()) {
    if (exp.isNull() && obs.isNull()) return "";
    return f + ": expected " + show(exp) + ", observed " + show(obs);
  }
  static const std::set<std::string> approxInt = {"memory_protection", "average_usage", "effective_usage"};
  static const std::set<std::string> approxDbl = {"effective_swap_util_pct", "io_cost_cumulative", "io_cost_rate", "memory_growth"};
  if (approxInt.count(f)) {
    long double a = exp.asDouble(), b = obs.isIntegral() ? (long double)obs.asInt64() : (long double)obs.asDouble();
    // each level of the hierarchy rounds its ratio in double and truncates its result to an integer, and the
    // errors compound down the tree (depth <= 4 here): one unit per level plus a few ulps of the magnitude
    long double tol = 4.0L + std::fabs(a) * std::ldexp(1.0L, -48) + abstol;
    if (std::fabs(a - b) <= tol) return "";
    return f + ": expected " + show(exp) + ", observed " + show(obs);
  }
  if (approxDbl.count(f)) {
    double a = exp.asDouble(), b = obs.asDouble();
    if (std::fabs(a - b) <= 1e-9 * std::max(std::fabs(a), std::fabs(b)) + 1e-12 + abstol) return "";
    return f + ": expected " + show(exp) + ", observed " + show(obs);
  }
  if (f.find("pressure") != std::string::npos && exp.isArray() && obs.isArray() && exp.size() == obs.size()) {
    for (Json::ArrayIndex i = 0; i < 3; i++) {
      double a = exp[i].asDouble(), b = obs[i].asDouble();
      if (std::fabs(a - b) > 1e-6 * std::max(1.0, std::fabs(a))) return f + ": expected " + show(exp) + ", observed " + show(obs);
    }
    if (exp[3] != obs[3]) return f + ": expected " + show(exp) + ", observed " + show(obs);
    return "";
  }
  if (exp != obs) return f + ": expected " + show(exp) + ", observed " + show(obs);
  return "";
}

} // namespace vps
